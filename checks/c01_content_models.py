"""C01 - child sequences are valid exactly when they are words of the content model."""
import itertools

from vk import env, modelkit as K, pinned
from vk.gen import models as M
from vk.ref import contentmodel as R

PROPERTY = 'C01'
LEVEL = 'exploration'
EXHAUSTIVE = {'quick': False, 'thorough': False}  # exhaustive only for the enumerated part
RULE = ('models: fixed regression catalogue + exhaustive enumeration of small models (thorough: all models with <= 4 '
        'particles over {a,b} and the occurrence vocabulary, exhaustive for that bound; quick: a seed-rotated 1/24 slice) '
        '+ seeded random nested models (depth <= 3, element / wildcard / substitution-head leaves, group refs, xs:all, 1.1 '
        'open content); for each model that the reference finds deterministic: every word up to the length bound over the '
        'model alphabet plus one unmatched symbol, validated by XMLSchema10 and XMLSchema11 and compared with two '
        'independent reference matchers; a case = (version, model, word); non-trivial case = model with nesting, a '
        'non-default group occurrence or a non-element leaf, counted once per distinct (version, canonical model) that '
        'was compared on at least one accepted and one rejected word')
RULE += (' ' + 'Particles with maxOccurs=0 (no particle at all) and nested choices without particles are in the catalogue and in 8 % of the random models. XSD 1.1 wildcards with notQName="##definedSibling" (they refuse every name the same content model declares, at any depth) are part of the catalogue and of the random models.')
ASSUMPTIONS = [
    'children are empty xs:string leaves so only the content model decides validity',
    'domain = models deterministic under the XSD 1.0 UPA reading by both reference formulations; for XSD 1.1 words on '
    'which the some-path reading and the element-priority reading of element/wildcard competition differ are not judged',
    'libxml2 (lxml) is an arbiter for 1.0-expressible models: a disagreement where libxml2 sides with the library is '
    'counted as disputed, not as a violation',
    'maxOccurs values stay <= 3 or unbounded',
]
ANCHORS = {
    'xmlschema/validators/models.py': [(267, 459), (737, 813)],
    'xmlschema/validators/groups.py': [(953, 1094)],
    'xmlschema/validators/particles.py': [(109, 123)],
    'xmlschema/validators/elements.py': [(1084, 1109)],
    'xmlschema/validators/wildcards.py': [(164, 186), (747, 791)],
}
SHARD_TIMEOUT = {'quick': 900, 'thorough': 5400}
LEVEL_TEXT = ('Runtime exploration with a reference-model oracle: the real validators are run on every word (bounded length) of '
              'tens of thousands of generated deterministic content models and compared with two independent matchers '
              '(end-position matcher, derivative matcher); disagreements are shrunk to minimal witnesses. Held on what was '
              'enumerated; says nothing about longer words or larger models.')
LEVEL_NOTE = ('Trusted: vk/ref/contentmodel.py (two formulations that must agree), the AST->XSD renderer, ElementTree. '
              'libxml2 arbitrates 1.0 cases. Known defects are listed in known_findings.json by mechanism.')
TECHNIQUE = 'runtime monitoring: reference-model oracle (two formulations + libxml2 arbiter) over enumerated and seeded executions'

SUBSTS = ('plain', 'head_abstract', 'member_abstract', 'blocked')


def catalogue():
    """Hand-written edge models and every minimal witness seen so far (regression floor)."""
    e = lambda n, mn=1, mx=1: ('e', n, mn, mx)
    s = lambda kids, mn=1, mx=1: ('s', tuple(kids), mn, mx)
    c = lambda kids, mn=1, mx=1: ('c', tuple(kids), mn, mx)
    a = lambda kids, mn=1, mx=1: ('a', tuple(kids), mn, mx)
    w = lambda con, mn=1, mx=1: ('w', con, mn, mx)
    h = lambda mn=1, mx=1: ('h', mn, mx)
    cat = [
        # the content of the type is one (optional) reference to a named group
        (a([e('a'), e('b', 0, 1)], 0, 1), {'groupref_root': True}), (a([e('a'), e('b')]), {'groupref_root': True}),
        (s([e('a'), e('b', 0, 1)], 0, 1), {'groupref_root': True}), (c([e('a'), e('b')], 0, 2), {'groupref_root': True}),
        # maxOccurs=0: no particle at all; a choice without particles matches nothing
        (c([e('a', 0, 0), e('b')]), {}), (s([e('a'), c([])]), {}), (s([e('a'), c([], 0, 1)]), {}),
        (c([s([e('a')], 0, 0), e('b')]), {}), (s([e('a', 0, 0), e('b')]), {}), (s([e('a'), c([e('b', 0, 0)])]), {}),
        # notQName="##definedSibling": siblings declared in nested groups count
        (s([c([e('a'), e('b')]), w('any~a,b', 0, None)]), {}),
        (s([s([e('a'), e('b')], 0, 1), w('any~a,b', 0, None)]), {}),
        (s([c([e('a'), s([e('b'), e('c', 0, 1)])], 1, 2), w('tns~a,b,c', 0, 2)]), {}),
        (s([e('a'), e('b')]), {}),
        (s([e('a', 0, 1), e('b')]), {}),
        (s([e('a', 2, 3), e('b', 0, None)]), {}),
        (c([e('a'), e('b')], 0, None), {}),
        (c([e('a'), e('b')], 2, 2), {}),
        (s([e('a', 0, 1)], 2, 2), {}),
        (c([e('a', 0, 1)], 2, 2), {}),
        (s([e('a', 2, 3)], 0, 2), {}),
        (s([e('a', 0, 1), s([e('b', 0, 1)], 0, 1)], 0, 1), {}),
        (s([e('b'), s([e('b', 0, 1)])], 0, 1), {}),
        (s([c([e('a'), e('b')]), e('c')], 1, None), {}),
        (s([s([e('a'), e('b')], 1, 2), e('c', 0, 1)]), {}),
        (s([e('a'), c([e('b'), s([e('c'), e('a')])], 0, None)]), {}),
        (a([e('a'), e('b', 0, 1), e('c')]), {}),
        (a([e('a'), e('b')], 0, 1), {}),
        (s([w('other', 0, None), e('a')]), {}),
        (s([e('a'), w('other', 0, 2)]), {}),
        (s([e('a'), w('local', 1, 1), w('n1', 0, 1)]), {}),
        (c([e('a'), w('other')], 0, 3), {}),
        (s([h(), e('a', 0, 1)]), {'subst': 'plain'}),
        (s([h(1, 2)]), {'subst': 'head_abstract'}),
        (s([h(0, None), e('a')]), {'subst': 'member_abstract'}),
        (s([h(), e('b')]), {'subst': 'blocked'}),
        (s([e('a'), s([e('b'), e('c', 0, 1)], 0, None)]), {'groupref': True}),
        (s([e('a'), e('b', 0, 1)]), {'open': ('interleave', 'other')}),
        (s([e('a'), e('b', 0, 1)]), {'open': ('suffix', 'other')}),
        (c([e('a'), e('b')], 1, 2), {'open': ('interleave', 'local')}),
        (a([e('a', 0, 2), e('b', 1, None)]), {}),
        (a([e('a', 1, 2), w('other', 0, 2)]), {}),
    ]
    return cat


E4_OCCURS = ((0, 1), (1, 1), (0, None), (2, 2))


def plan(tier, seed):
    specs = [{'kind': 'catalogue'}]
    if tier == 'quick':
        # seed-rotated slices of the two exhaustive enumerations, split over shards
        nsl3, nsl4, parts = 24, 48, 5
        take3 = [(seed % nsl3, nsl3, p, parts) for p in range(parts)]
        take4 = [(seed % nsl4, nsl4, p, 3) for p in range(3)]
        nrand, rshards = 240, 12
        maxlen = 5
    else:
        take3 = [(sl, 48, 0, 1) for sl in range(48)]
        take4 = [(sl, 48, 0, 1) for sl in range(48)]
        nrand, rshards = 6400, 64
        maxlen = 6
    for sl, nsl, part, parts in take3:
        specs.append({'kind': 'enum3', 'slice': sl, 'nslices': nsl, 'part': part, 'parts': parts, 'maxlen': maxlen})
    for sl, nsl, part, parts in take4:
        specs.append({'kind': 'enum4', 'slice': sl, 'nslices': nsl, 'part': part, 'parts': parts, 'maxlen': maxlen})
    per = nrand // rshards
    for r in range(rshards):
        specs.append({'kind': 'random', 'n': per, 'rshard': r, 'maxlen': maxlen})
    return specs


# ---------------------------------------------------------------------------------------------
class Judge:
    """Runs one (version, model) against all its words and records into res."""

    def __init__(self, res, maxlen):
        self.res = res
        self.maxlen = maxlen

    def words_for(self, node, cfg):
        syms = set(M.alphabet(node, cfg))
        model = R.Model(node, cfg)
        matched = set()
        for sset in model.leaf_syms.values():
            matched |= sset
        for extra in ('u', 'n', 'x'):
            if extra not in matched:
                syms.add(extra)
                break
        syms = sorted(syms)
        maxlen = self.maxlen
        while len(syms) ** maxlen > 6000 and maxlen > 3:
            maxlen -= 1
        if len(syms) <= 2:
            maxlen += 1
        return model, list(M.all_words(syms, maxlen))

    def run_model(self, node, cfg, origin):
        res = self.res
        node = M.to_tuple(node)
        for version in ('1.0', '1.1'):
            if version == '1.0' and (cfg.get('open') or not K.expressible_10(node)):
                continue
            self.run_version(node, cfg, version, origin)

    def run_version(self, node, cfg, version, origin):
        res = self.res
        model, words = self.words_for(node, cfg)
        det, why = R.deterministic(model, '1.0')
        if det is None:
            res.count('model:reference_inconsistent_or_unknown')
            res.inconclusive_case('determinism reference undecided', K.witness_text(node, cfg, (), version))
            return
        if not det:
            det11 = None
            if version == '1.1':
                det11, _ = R.deterministic(model, '1.1')
            if not det11:
                res.count(f'model:{version}:skipped_nondeterministic')
                return
            res.count('model:1.1:competition_only')
        status, schema = K.build_model_schema(node, cfg, version)
        if status != 'ok':
            res.count(f'model:{version}:refused_at_build:{status}')
            return
        res.count(f'model:{version}:judged')
        competition = version == '1.1' and R.has_competition(model) or bool(cfg.get('open'))
        acc = rej = 0
        bad = []
        abstract_sym = {'head_abstract': 'h', 'member_abstract': 'k'}.get(cfg.get('subst'))
        if abstract_sym and not (cfg.get('open') or any(lf[0] == 'w' for lf in M.leaves(node))):
            abstract_sym = None
        for w in words:
            if abstract_sym and abstract_sym in w:
                # the abstract declaration is matched by name and then fails locally; a wildcard does not rescue it
                res.count('word:abstract_symbol_with_wildcard_not_judged')
                continue
            ref, ok = R.in_language(model, w)
            if not ok:
                res.count('word:reference_inconsistent')
                res.inconclusive_case('language formulations disagree', K.witness_text(node, cfg, w, version))
                continue
            if competition and R.in_language_priority(model, w) != ref:
                res.count('word:competition_divergent_not_judged')
                continue
            lib = K.lib_valid(schema, w)
            res.evaluations += 1
            if (len(w) + acc + rej) % 9 == 0:
                # comments, processing instructions and white space between the children are not part of the sequence
                res.count('word:noisy_instance_compared')
                if schema.is_valid(M.instance_element_noisy(w)) != lib:
                    res.violation('comments-or-processing-instructions-between-children-change-the-verdict',
                                  {'node': node, 'cfg': cfg, 'version': version, 'word': w},
                                  K.witness_text(node, cfg, w, version) + f': plain instance valid={lib}, with comments / PIs valid={not lib}')
            if lib == ref:
                if ref:
                    acc += 1
                else:
                    rej += 1
                continue
            bad.append((w, ref, lib))
        res.count('word:agree_accept', acc)
        res.count('word:agree_reject', rej)
        if acc and rej and M.nontrivial(node):
            res.nontrivial.add(env.h8((version, M.text(node), K.cfg_text(cfg))))
        if rej and not bad:
            self.check_error_location(schema, node, cfg, version, words, model)
        if bad:
            self.report(node, cfg, version, bad, origin)
        elif len(res.samples) < 2:
            res.sample({'model': M.text(node) + K.cfg_text(cfg), 'version': version,
                        'words': len(words), 'accepted': acc, 'rejected': rej})

    def check_error_location(self, schema, node, cfg, version, words, model):
        """A rejected sequence yields at least one error attached to the parent element."""
        res = self.res
        n = 0
        for w in words:
            if n >= 6:
                break
            if len(w) < 1 or R.in_language_ends(model, w):
                continue
            if cfg.get('subst', 'plain') != 'plain' and set(w) & {'h', 'm', 'k', 'j'}:
                continue   # abstract / blocked members: the library reports the error on the child itself
            n += 1
            root = M.instance_element(w)
            errs = list(schema.iter_errors(root))
            res.count('errloc:checked')
            if not errs:
                continue   # verdict mismatch is reported by the main comparison
            if not any(e.elem is root for e in errs):
                res.violation('errloc:no-error-on-parent', {'node': node, 'cfg': cfg, 'version': version, 'word': w},
                              K.witness_text(node, cfg, w, version) + ' errors at ' +
                              ','.join(str(getattr(e.elem, 'tag', None)) for e in errs))

    def report(self, node, cfg, version, bad, origin):
        res = self.res
        # take the shortest disagreeing word of each direction
        for direction in ('false-reject', 'false-accept'):
            cand = [b for b in bad if (b[1] and not b[2]) == (direction == 'false-reject')]
            if not cand:
                continue
            w, ref, lib = min(cand, key=lambda b: (len(b[0]), b[0]))
            arb = K.arbiter_valid(node, cfg, w) if version == '1.0' or K.expressible_10(node) and not cfg.get('open') else None
            if arb is not None and arb == lib:
                res.count('word:disputed_by_arbiter', len(cand))
                res.inconclusive_case('arbiter sides with library', K.witness_text(node, cfg, w, version))
                continue
            # Is the wrong verdict the one the pinned model visitor gives (a listed weakness of the greedy visitor) or
            # does the tree decide differently from it? The shrinker keeps that answer fixed (see DESIGN 3.5).
            same0 = same_as_pinned(node, cfg, w, version, lib)
            res.count(f'{version}:wrong_verdict:' + {True: 'same_as_pinned_visitor', False: 'differs_from_pinned_visitor',
                                                      None: 'pinned_visitor_not_run'}[same0])
            mnode, mcfg, mword = K.shrink(node, cfg, w, lambda n2, c2, ws: self.failing_word(n2, c2, ws, version, direction, same0))
            mech = classify(mnode, mcfg, mword, version, direction)
            if same0 is False:
                head, sep, tail = mech.partition(': ')
                mech = head + ':not-the-verdict-of-the-pinned-visitor' + sep + tail
            res.violation(mech, {'node': mnode, 'cfg': mcfg, 'version': version, 'word': mword, 'direction': direction,
                                 'original': K.witness_text(node, cfg, w, version)},
                          f'{direction}: {K.witness_text(mnode, mcfg, mword, version)} (from {origin}: '
                          f'{K.witness_text(node, cfg, w)}; {len(cand)} words of this model)')

    def failing_word(self, node, cfg, words, version, direction, same0='any'):
        if version == '1.0' and (cfg.get('open') or not K.expressible_10(node)):
            return None
        model = R.Model(node, cfg)
        det, _ = R.deterministic(model, '1.0')
        if not det:
            if version == '1.0' or not R.deterministic(model, '1.1')[0]:
                return None
        competition = version == '1.1' and R.has_competition(model) or bool(cfg.get('open'))
        schema = None
        use_arb = K.expressible_10(node) and not cfg.get('open')
        abstract_sym = {'head_abstract': 'h', 'member_abstract': 'k'}.get(cfg.get('subst'))
        if abstract_sym and not (cfg.get('open') or any(lf[0] == 'w' for lf in M.leaves(node))):
            abstract_sym = None
        for word in words:
            if abstract_sym and abstract_sym in word:
                continue
            ref, ok = R.in_language(model, word)
            if not ok or ref != (direction == 'false-reject'):
                continue
            if competition and R.in_language_priority(model, word) != ref:
                continue
            if schema is None:
                status, schema = K.build_model_schema(node, cfg, version)
                if status != 'ok':
                    return None
            lib = K.lib_valid(schema, word)
            if lib == ref:
                continue
            if use_arb:
                arb = K.arbiter_valid(node, cfg, word)
                if arb is not None and arb == lib:
                    continue
            if same0 != 'any' and same_as_pinned(node, cfg, word, version, lib) != same0:
                continue
            return word
        return None


def same_as_pinned(node, cfg, word, version, lib):
    """Does the frozen copy of the pinned model visitors (vk/pinned.py), run inside the live library on the same
    schema and word, give the verdict the tree gave? None if it cannot be run."""
    status, schema = K.build_model_schema(node, cfg, version)
    if status != 'ok':
        return None
    try:
        with pinned.pinned_model_visitors():
            return K.lib_valid(schema, word) == lib
    except Exception:
        return None


def groups_of(node):
    if M.is_group(node):
        yield node
        for c in node[1]:
            yield from groups_of(c)


def body_nullable(g):
    """Is one iteration of group g's body able to match the empty sequence?"""
    return R.nullable(R.Model((g[0], g[1], 1, 1)).expr)


def has_choice_with_emptiable_child(node, nested_only=False):
    for g in groups_of(node):
        if g[0] == 'c' and not (nested_only and g is node) and \
                any(R.nullable(R.Model(('s', (c,), 1, 1)).expr) for c in g[1]):
            return True
    return False


def classify(node, cfg, word, version, direction):
    """Mechanism name, decided on the minimal witness. Order matters (first match wins)."""
    model = R.Model(node, cfg)
    small = M.size(node) <= 5
    if cfg.get('open'):
        if cfg.get('subst') == 'blocked' and direction == 'false-reject':
            return 'open-content+blocked-substitution-head:false-reject'
        if has_choice_with_emptiable_child(node) and direction == 'false-reject' and small:
            return 'open-content+choice-with-emptiable-child:false-reject'
        if direction == 'false-reject' and small and cfg['open'][0] == 'interleave':
            declared = set()
            for lid, syms in model.leaf_syms.items():
                if model.leaf_kind[lid] == 'e':
                    declared |= syms
            if any(sym in declared and M.wildcard_admits(cfg['open'][1], sym) for sym in word):
                return 'open-content-interleave+name-declared-in-model:false-reject'
        return f'unclassified:{direction}: {K.witness_text(node, cfg, word)}'
    if cfg.get('groupref_root') and node[0] == 'a' and node[2] == 0 and direction == 'false-reject' and not word:
        return 'optional-reference-to-a-named-all-group-rejects-empty-content:false-reject'
    if M.has_empty_choice(node) and direction == 'false-accept':
        return 'nested-choice-without-particles-matches-the-empty-sequence:false-accept'
    if M.has_absent(node):
        return f'particle-with-maxOccurs-0-read-as-an-emptiable-particle:{direction}'
    if version == '1.1' and R.has_competition(model):
        return f'v11-wildcard-precedence:{direction}'
    if direction == 'false-reject' and M.size(node) <= 7:
        # (the minimal witnesses of this family have up to 6-7 particles when the emptiable part is a nested group)
        for g in groups_of(node):
            if g[2] >= 2 and body_nullable(g):
                return 'emptiable-group-min2:false-reject'
    if direction == 'false-reject' and small:
        for g in groups_of(node):
            if g[3] is None or g[3] >= 2:
                for p in particles_below(g):
                    mn, mx = M.occ(p)
                    if (mx is None or mx >= 2) and mn != mx:
                        return 'nested-counter-greedy:false-reject'
    if direction == 'false-accept' and small and has_choice_with_emptiable_child(node, nested_only=True):
        return 'nested-choice-emptiable-overrun:false-accept'
    return f'unclassified:{direction}: {K.witness_text(node, cfg, word)}'


def particles_below(g):
    for c in g[1]:
        yield c
        if M.is_group(c):
            yield from particles_below(c)


# ---------------------------------------------------------------------------------------------
def run_shard(spec, res):
    env.activate_repo()
    kind = spec['kind']
    judge = Judge(res, spec.get('maxlen', 5))
    if kind == 'catalogue':
        for node, cfg in catalogue():
            judge.run_model(node, cfg, 'catalogue')
    elif kind in ('enum3', 'enum4'):
        it = M.enumerate_models(3, names=('a', 'b')) if kind == 'enum3' else \
            (n for n in M.enumerate_models(4, names=('a', 'b'), occurs=E4_OCCURS) if M.size(n) == 4)
        k = 0
        for i, node in enumerate(it):
            if i % spec['nslices'] != spec['slice']:
                continue
            k += 1
            if k % spec['parts'] != spec['part']:
                continue
            res.count(kind + ':models')
            judge.run_model(node, {}, kind)
    else:
        rng = env.rng_for(PROPERTY, spec['tier'], spec['seed'], spec['rshard'])
        for i in range(spec['n']):
            r = rng.random()
            cfg = {}
            if r < 0.12:
                version = rng.choice(('1.0', '1.1'))
                node = M.sample_all_model(rng, version)
                if any(c[0] == 'h' for c in node[1]):
                    cfg['subst'] = rng.choice(SUBSTS)
            else:
                node = M.sample_model(rng, max_depth=rng.choice((2, 3, 3)))
                if any(lf[0] == 'h' for lf in M.leaves(node)):
                    cfg['subst'] = rng.choice(SUBSTS)
                if rng.random() < 0.15:
                    cfg['groupref'] = True
                if rng.random() < 0.15:
                    cfg['open'] = (rng.choice(('interleave', 'suffix')), rng.choice(('other', 'local', 'n1', 'any')))
            if not cfg and any(lf[0] == 'w' for lf in M.leaves(node)) and not any(lf[0] == 'h' for lf in M.leaves(node)) \
                    and rng.random() < 0.5:
                # XSD 1.1: wildcards that refuse the names declared anywhere in the same content model
                node = M.with_defined_sibling(node, rng)
                res.count('random:models_with_definedSibling')
            if not cfg.get('open') and not cfg.get('groupref') and rng.random() < 0.12:
                # the model as a named group, the type's content being one reference to it (with the occurrence range)
                cfg['groupref_root'] = True
                res.count('random:models_as_root_group_reference')
            if not cfg and M.is_group(node) and node[0] != 'a' and rng.random() < 0.08:
                # one particle with maxOccurs=0, or a nested choice without particles
                kids = list(node[1])
                i = rng.randrange(len(kids))
                if rng.random() < 0.7:
                    kids[i] = tuple(kids[i][:-2]) + (0, 0)
                else:
                    kids.insert(i, ('c', (), rng.choice((0, 1)), 1))
                node = (node[0], tuple(kids)) + tuple(node[2:])
                res.count('random:models_with_absent_particle_or_empty_choice')
            res.count('random:models')
            judge.run_model(node, cfg, 'random')


def finalize(res, tier):
    reasons = []
    c = res.counters
    if not c.get('word:agree_accept') or not c.get('word:agree_reject'):
        reasons.append('no accepted or no rejected word was ever compared')
    judged = c.get('model:1.0:judged', 0) + c.get('model:1.1:judged', 0)
    if judged < 50:
        reasons.append(f'only {judged} models judged')
    total = c.get('word:agree_accept', 0) + c.get('word:agree_reject', 0)
    if c.get('word:disputed_by_arbiter', 0) > 0.02 * max(total, 1):
        reasons.append('disputed fraction above 2%: the reference needs repair')
    if c.get('word:reference_inconsistent', 0):
        reasons.append('reference formulations disagreed on some words')
    return {'inconclusive': reasons}


def replay(case):
    env.activate_repo()
    node, cfg, version, word = M.to_tuple(case['node']), case['cfg'], case['version'], tuple(case['word'])
    if cfg.get('open'):
        cfg['open'] = tuple(cfg['open'])
    model = R.Model(node, cfg)
    ref, ok = R.in_language(model, word)
    status, schema = K.build_model_schema(node, cfg, version)
    print('model', K.witness_text(node, cfg, word, version), 'reference', ref, 'formulations agree', ok, 'build', status)
    if status != 'ok':
        return False
    lib = K.lib_valid(schema, word)
    print('library is_valid', lib, 'libxml2', K.arbiter_valid(node, cfg, word) if K.expressible_10(node) and not cfg.get('open') else None)
    print(M.render_schema(node, cfg))
    print(M.instance_text(word))
    if case.get('direction'):
        return lib != ref
    errs = list(schema.iter_errors(M.instance_element(word)))
    return bool(errs)
