"""C02 - simple-type validation and decoding follow XSD datatype semantics."""
import math
import re
from decimal import Decimal

from vk import env
from vk.ref import datatypes as DT

PROPERTY = 'C02'
LEVEL = 'exploration'
RULE = ('every built-in atomic type of XSD 1.0 and 1.1 (integer family, decimal, float, double, boolean, the nine date/time '
        'types, the duration family, hexBinary, base64Binary, string family, language, Name / NCName / NMTOKEN) x a '
        'hand-written boundary catalogue of 30-80 lexical forms per type family (range ends +-1, signs, leading zeros, '
        'exponent and INF spellings, leap days, 24:00:00, year 0000, timezone limits, duration corner forms, base64 groups and '
        'padding, whitespace of every kind, non-ASCII digits, digit separators) + seeded single-character mutations of them; '
        'seeded restriction chains (two levels, length / bounds / digits / enumeration / pattern facets), lists and unions; '
        'through an element of the type and through XsdSimpleType.is_valid / decode / encode directly; decode options '
        'decimal_type, datetime_types, binary_types; a case = (type, text, route); distinct non-trivial = distinct (type, '
        'normalised text) pairs')
ASSUMPTIONS = [
    'xs:float may be decoded as the nearest double or the nearest single; anyURI is treated as "any string"; name classes are '
    'exercised with ASCII and Latin-1 letters only',
    'date/time bounds use like-for-like timezones only; length facets are not applied to QName / NOTATION',
    'libxml2 (lxml) arbitrates verdicts of XSD 1.0 types: a disagreement where it sides with the library is counted as disputed',
    'union decode in lax mode is compared on valid texts only',
]
ANCHORS = {
    'xmlschema/validators/simple_types.py': [(447, 463), (705, 842), (991, 1019), (1178, 1211), (1449, 1529)],
    'xmlschema/validators/facets.py': [(171, 833)],
    'xmlschema/validators/builtins.py': [(72, 505)],
    'xmlschema/validators/helpers.py': [(151, 298)],
    'xmlschema/utils/decoding.py': [(32, 64)],
}
SHARD_TIMEOUT = {'quick': 900, 'thorough': 3600}
LEVEL_TEXT = ('Runtime monitoring with a reference-model oracle: lexical recognisers and value functions written from XSD Part 2 '
              'decide a boundary catalogue and its seeded mutations for every built-in type, restriction chains, lists and '
              'unions; verdicts, decoded values and encode/decode round trips of the real code are compared with them, libxml2 '
              'arbitrating the verdicts of XSD 1.0 types.')
LEVEL_NOTE = 'Trusted: vk/ref/datatypes.py (regular expressions + calendar arithmetic), libxml2 as tie-breaker, Python Decimal / float.'
TECHNIQUE = 'runtime monitoring: reference-model oracle (lexical/value spaces) with libxml2 arbiter, over boundary catalogue + seeded mutations'

XS = 'http://www.w3.org/2001/XMLSchema'
MUT_ALPHABET = '0123456789+-.eE:TZPYMDHS _١１\t\n,/=AafF'


def catalogue(typ):
    c = ['', ' ', '5', ' 5 ', '\t5\n', 'abc']
    if typ in DT.INTEGER_RANGES:
        lo, hi = DT.INTEGER_RANGES[typ]
        for v in (lo, hi):
            if v is not None:
                c += [str(v), str(v - 1), str(v + 1)]
        c += ['0', '-0', '+0', '007', '+5', '-5', '- 5', '5.0', '5.', '1e3', '١٢', '１２', '1_000', '0x10', '+', '-', '--5',
              '9' * 30, '-' + '9' * 30, '5 5', '５', '1,000', '²']
    elif typ == 'decimal':
        c += ['1.5', '.5', '5.', '+.5', '-0.0', '1,5', '1e2', 'INF', 'NaN', '12 1', '١.٥', '1.2.3', '.', '+.', '00000.00000',
              '1_0.5', '1.5_0', '１.５', '-', '+1', '1.' + '0' * 40, '9' * 40 + '.5', '0x1.8', '1.5f', '1/2']
    elif typ in ('float', 'double'):
        c += ['1e3', '1E-3', 'INF', '-INF', '+INF', 'NaN', 'nan', 'inf', 'Infinity', '-NaN', '1e', 'e5', '1e+400', '-1e400',
              '4.9e-324', '1e-400', '3.4028235e38', '3.5e38', '.5e1', '5.e1', '1f', '0x1p3', '1_0e1', '１e1', '1e1.5', '1 e1',
              '--1', '+-1', '1e+', '.e1', '1.5', '-0', '0.1']
    elif typ == 'boolean':
        c += ['true', 'false', '1', '0', 'TRUE', 'True', 'yes', ' true ', '01', 'truefalse', 't', '１', 'true\n', '-0', '+1']
    elif typ in ('dateTime', 'dateTimeStamp'):
        c += ['2020-02-29T12:00:00', '2021-02-29T12:00:00', '2020-12-31T24:00:00', '2020-12-31T24:00:01', '2020-12-31T24:00:00.0',
              '2020-12-31T23:59:60', '2020-01-01T00:00:00Z', '2020-01-01T00:00:00+14:00', '2020-01-01T00:00:00+14:01',
              '2020-01-01T00:00:00-14:00', '2020-01-01T00:00:00+15:00', '2020-1-1T0:0:0', '02020-01-01T00:00:00',
              '12020-01-01T00:00:00', '0000-01-01T00:00:00', '-0001-01-01T00:00:00', '2020-01-01', '2020-01-01T00:00',
              '2020-01-01T00:00:00.', '2020-01-01T00:00:00.123456789', '2020-13-01T00:00:00', '2020-00-10T00:00:00',
              '2020-04-31T00:00:00', '2020-01-01t00:00:00', ' 2020-01-01T00:00:00 ', '2020-01-01T00:00:00z',
              '2020-01-01T00:00:00+1:00', '2020-01-01T25:00:00', '2020-01-01T00:60:00', '1900-02-29T00:00:00',
              '2000-02-29T00:00:00', '2020-01-01T00:00:00+00:60', '2020-01-01 00:00:00', '２０２０-01-01T00:00:00',
              '999999999-01-01T00:00:00', '2020-01-01T00:00:00-00:00', '+2020-01-01T00:00:00']
    elif typ == 'date':
        c += ['2020-02-29', '2021-02-29', '2020-12-31Z', '2020-12-31+14:00', '2020-12-31+14:01', '2020-1-1', '02020-01-01', '12020-01-01',
              '0000-01-01', '-0001-01-01', '2020-13-01', '2020-00-10', '2020-04-31', '2020-01-32', '2020-01-00', '20200101',
              '2020-01-01T00:00:00', ' 2020-01-01 ', '1900-02-29', '2000-02-29', '2020-01-01z', '２０２０-01-01', '99999999999-01-01',
              '2020-01-01-15:00', '+2020-01-01', '2020/01/01']
    elif typ == 'time':
        c += ['12:00:00', '24:00:00', '24:00:01', '23:59:60', '00:00:00Z', '00:00:00+14:00', '00:00:00+14:01', '0:0:0', '12:00',
              '12:00:00.', '12:00:00.123', '25:00:00', '12:60:00', '12:00:00z', ' 12:00:00 ', '１２:00:00', '12:00:00+1:00', '-12:00:00']
    elif typ == 'gYearMonth':
        c += ['2020-02', '2020-13', '2020-00', '20-02', '2020-2', '2020-02Z', '-2020-02', '0000-01', '02020-01', '2020-02-01', '2020-02+14:00', '2020']
    elif typ == 'gYear':
        c += ['2020', '02020', '12020', '0000', '-0001', '202', '2020Z', '2020-05:00', '+2020', '99999999999999999999', '20 20', '２０２０', '2020-14:01']
    elif typ == 'gMonthDay':
        c += ['--02-29', '--02-30', '--13-01', '--1-1', '-02-29', '--04-31', '--12-31Z', '--01-00', '--00-01', '--02-29+14:00', '---02-29']
    elif typ == 'gDay':
        c += ['---01', '---31', '---32', '---1', '--01', '---00', '---15Z', '---15+14:01', '----15']
    elif typ == 'gMonth':
        c += ['--01', '--12', '--13', '--1', '--01--', '-01', '--00', '--06Z', '--06+05:00', '---06']
    elif typ in DT.DURATION_TYPES:
        c += ['P1Y', 'P1M', 'P1D', 'PT1H', 'PT1M', 'PT1S', 'PT1.5S', 'P1Y2M3DT4H5M6.7S', '-P1D', 'P', 'PT', 'P1YT', 'P-1Y', 'P1.5Y',
              'P1S', 'PT1D', '1Y', 'p1y', 'P1Y ', 'P1M1Y', 'PT1.S', 'PT.5S', 'P0Y', '+P1D', 'P1DT', 'P1Y1M', 'P1DT1M', 'P１Y',
              'PT1H1H', 'P' + '9' * 40 + 'Y', '--P1D', 'P1D1Y', 'PT1S1M', 'P1W']
    elif typ == 'hexBinary':
        c += ['0F', '0f', '0', '0G', '0F0', '0F 0F', ' 0F ', '0x0F', 'AbCd', '０F', '0F\n']
    elif typ == 'base64Binary':
        c += ['AA==', 'AAA=', 'AAAA', 'A', 'AA=', 'AA= =', 'A A A A', 'AAAAA', '====', 'AB==', 'AQ==', 'AAB=', 'AAA', '  AAAA  ',
              'AA==AA==', 'AAAA AAAA', 'AA\nAA', 'A=AA', '-_-_', 'AAAA=', 'AAE=', 'AAF=']
    elif typ == 'language':
        c += ['en', 'en-US', 'x-klingon', 'en_US', 'toolongtoolong', '1a', 'en-', 'i-enochian', 'e' * 9, 'en-' + 'a' * 9, 'en--US', '-en', 'EN', 'e n']
    elif typ in ('Name', 'NCName', 'NMTOKEN'):
        c += ['a', ':a', '_a', '1a', 'a b', 'a:b', 'a.b-c', 'é', '-a', '.a', 'a:', ':', '.', 'a\tb', ' a ', 'a·b', 'a&b', 'a/b', 'ａ']
    else:
        c += ['a b', '  a  ', ' \t', 'a\nb', 'a  b', '\ta\t', 'é', 'x' * 1000]
    return c


def mutate(text, rng):
    if not text or rng.random() < 0.2:
        pos = rng.randint(0, len(text))
        return text[:pos] + rng.choice(MUT_ALPHABET) + text[pos:]
    pos = rng.randrange(len(text))
    r = rng.random()
    if r < 0.4:
        return text[:pos] + text[pos + 1:]
    if r < 0.8:
        return text[:pos] + rng.choice(MUT_ALPHABET) + text[pos + 1:]
    return text[:pos] + text[pos] + text[pos:]


def plan(tier, seed):
    specs = []
    types = list(DT.ALL_TYPES)
    per = 4
    for i in range(0, len(types), per):
        specs.append({'kind': 'builtins', 'types': types[i:i + per], 'mutations': 250 if tier == 'quick' else 2500})
    for s in range(4 if tier == 'quick' else 16):
        specs.append({'kind': 'derived', 'n': 40 if tier == 'quick' else 400, 'dshard': s})
    return specs


def esc(t):
    return t.replace('&', '&amp;').replace('<', '&lt;').replace('>', '&gt;')


def xml_ok(t):
    return all(c in '\t\n\r' or ord(c) >= 0x20 for c in t) and '\r' not in t


def text_class(typ, t):
    """Lexical class of a text, the key of known findings (never the text itself)."""
    n = DT.normalize(typ, t)
    if re.search(r'[0-9]_[0-9]', n):
        return 'digit-separator-underscore'
    if re.search(r'[^\x00-\x7f]', n) and any(ch.isdigit() and not ch.isascii() for ch in n):
        return 'non-ascii-decimal-digit'
    if ' ' in n and typ not in DT.STRING_TYPES and typ not in ('base64Binary',):
        return 'interior-whitespace'
    if n.lower() in ('nan', 'inf', '-inf', '+inf', 'infinity', '-infinity', '+infinity', '-nan', '+nan') and n not in ('NaN', 'INF', '-INF'):
        return 'inf-nan-spelling:' + n.lower().lstrip('+-')
    if typ in DT.DATE_TYPES:
        if re.match(r'-?[0-9]{5,}', n):
            return 'year-more-than-4-digits'
        if re.search(r'24:00:00', n):
            return 'hour-24'
        if re.match(r'-?0000', n):
            return 'year-zero'
        if re.search(r'[+-]1[4-9]:', n) or re.search(r'[+-]00:00$', n):
            return 'timezone-boundary'
    if typ in DT.DURATION_TYPES:
        return 'duration-form'
    if typ == 'base64Binary':
        return 'base64-form'
    return 'other'


def run_builtins(spec, res):
    xmlschema = env.activate_repo()
    from lxml import etree
    rng = env.rng_for(PROPERTY, spec['tier'], spec['seed'], 'builtins', ','.join(spec['types']))
    for typ in spec['types']:
        versions = ('1.1',) if typ in DT.ONLY_11 else ('1.0', '1.1')
        texts = list(dict.fromkeys(catalogue(typ)))
        base = list(texts)
        # Unicode white space that is not XSD white space (#x20 #x9 #xA #xD): an ordinary character for every type
        for v in [t for t in base if t and t == t.strip()][:4]:
            texts += ['\u00a0' + v, v + '\u2003', '\u2009' + v + '\u00a0'] + ([v[0] + '\u00a0' + v[1:]] if len(v) > 1 else [])
        for _ in range(spec['mutations']):
            t = mutate(rng.choice(base), rng)
            if rng.random() < 0.2:
                t = mutate(t, rng)
            texts.append(t)
        texts = [t for t in dict.fromkeys(texts) if xml_ok(t)]
        xsd = (f'<xs:schema xmlns:xs="{XS}"><xs:element name="e" type="xs:{typ}"/>'
               f'<xs:element name="a"><xs:complexType><xs:attribute name="v" type="xs:{typ}"/></xs:complexType></xs:element></xs:schema>')
        arb = None
        if typ not in DT.ONLY_11:
            try:
                arb = etree.XMLSchema(etree.fromstring(xsd.encode()))
            except etree.XMLSchemaParseError:
                arb = None
        for version in versions:
            cls = xmlschema.XMLSchema10 if version == '1.0' else xmlschema.XMLSchema11
            schema = cls(xsd)
            st = schema.elements['e'].type
            for t in texts:
                judge_builtin(res, xmlschema, etree, schema, st, arb, typ, version, t)
        if len(res.samples) < 2:
            res.sample({'type': typ, 'texts': len(texts), 'examples': texts[6:12]})


def judge_builtin(res, xmlschema, etree, schema, st, arb, typ, version, t):
    n = DT.normalize(typ, t)
    want = DT.lexical_ok(typ, n, version)
    doc = f'<e>{esc(t)}</e>'
    case = {'type': typ, 'version': version, 'text': t}
    res.evaluations += 1
    res.nontrivial.add(env.h8((typ, n)))
    try:
        got = schema.is_valid(doc)
        got_direct = st.is_valid(t)
    except xmlschema.XMLSchemaException as e:
        res.violation(f'is_valid-raised:{type(e).__name__}', case, f'{typ} {t!r}: {e!r}'[:200])
        return
    except Exception as e:
        res.violation(f'foreign-exception:{type(e).__name__}:{text_class(typ, t)}', case, f'{typ} {t!r}: {e!r}'[:200])
        return
    if got != got_direct:
        res.violation(f'element-route-differs-from-direct-route:{typ}', case, f'{typ} {t!r}: element {got} direct {got_direct}')
        return
    res.count(f'{version}:expected_{"valid" if want else "invalid"}')
    if typ in DT.TOLERATED or (typ in ('Name', 'NCName', 'NMTOKEN', 'language') and any(ord(ch) > 0xff for ch in t)) or \
            re.search(r'[0-9]{8,}', n) and typ in DT.DATE_TYPES + DT.DURATION_TYPES:
        # implementation limits on huge years / duration components are permitted by the recommendation
        res.count('tolerated_not_judged')
        return
    if got != want:
        arb_valid = None
        if arb is not None and not (version == '1.1' and text_class(typ, t) in ('year-zero',) or n in ('+INF',)):
            try:
                arb_valid = bool(arb.validate(etree.fromstring(doc.encode('utf-8'))))
            except etree.XMLSyntaxError:
                arb_valid = None
        if arb_valid is not None and arb_valid == got:
            res.count('disputed_by_arbiter')
            res.inconclusive_case('arbiter sides with library', [typ, version, t[:60], got])
            return
        direction = 'false-accept' if got else 'false-reject'
        fam = 'integer-family' if typ in DT.INTEGER_RANGES else typ
        if text_class(typ, t) == 'year-more-than-4-digits':
            fam = 'year-bearing-date-types'
        res.violation(f'{direction}:{fam}:{text_class(typ, t)}', case,
                      f'{version} xs:{typ} {t!r} (normalised {n!r}): library valid={got} reference {want} libxml2={arb_valid}')
        return
    res.count('verdict:agree')
    if not want:
        return
    # decoded value
    try:
        dec = st.decode(t)
    except xmlschema.XMLSchemaException as e:
        res.violation(f'decode-raised-on-valid-text:{typ}', case, f'{typ} {t!r}: {e!r}'[:200])
        return
    ref = DT.value(typ, n)
    ok = True
    if typ in DT.INTEGER_RANGES or typ in ('decimal', 'boolean'):
        ok = type(dec) in (int, Decimal, bool) and dec == ref and (isinstance(dec, bool) == isinstance(ref, bool))
    elif typ in ('float', 'double'):
        ok = isinstance(dec, float) and DT.float_equal(dec, ref, typ == 'float')
    elif typ in DT.STRING_TYPES:
        ok = dec == n
    else:
        # date/time, duration and binary types decode to typed objects on the direct route: their equality is
        # exercised by the encode round trip below, not by a lexical comparison (24:00:00 == 00:00:00 next day)
        ok = dec is not None
    res.count('value:compared')
    if not ok:
        res.violation(f'decoded-value-differs:{typ if typ not in DT.INTEGER_RANGES else "integer-family"}:{text_class(typ, t)}', case,
                      f'{version} xs:{typ} {t!r}: decoded {dec!r} reference {ref!r}')
        return
    # encode round trip
    try:
        enc = st.encode(dec)
        dec2 = st.decode(enc)
    except xmlschema.XMLSchemaException as e:
        res.violation(f'encode-roundtrip-raised:{typ}', case, f'{typ} {t!r}: decoded {dec!r}: {e!r}'[:200])
        return
    same = dec2 == dec or (isinstance(dec, float) and isinstance(dec2, float) and math.isnan(dec) and math.isnan(dec2))
    res.count('roundtrip:compared')
    if not same:
        fam = 'year-bearing-date-types' if typ in ('date', 'dateTime', 'dateTimeStamp', 'gYear', 'gYearMonth') else typ
        res.violation(f'encode-roundtrip-differs:{fam}:{text_class(typ, t)}' + (':negative' if n.startswith('-') else ''), case,
                      f'{version} {typ} {t!r}: {dec!r} -> {enc!r} -> {dec2!r}')
    if typ == 'decimal':
        # the type also takes float data: what it writes must be in the lexical space (no exponent) and read back equal
        try:
            fv = float(dec)
        except (OverflowError, ValueError):
            fv = None
        if fv is not None and math.isfinite(fv):
            res.count('roundtrip:float_data_for_decimal')
            try:
                enc_f = st.encode(fv)
                back = st.decode(enc_f)
                if float(back) != fv:
                    res.violation('encode-roundtrip-differs:decimal:float-data', case, f'{version} decimal: float {fv!r} -> {enc_f!r} -> {back!r}')
            except xmlschema.XMLSchemaException as e:
                res.violation('encode-roundtrip-raised:decimal:float-data', case, f'decimal: float {fv!r} written as {st.encode(fv, validation="skip")!r}: {e!r}'[:240])
    # typed decoding options
    if typ in DT.DATE_TYPES + DT.DURATION_TYPES + ('hexBinary', 'base64Binary', 'decimal'):
        try:
            doc_dec = schema.decode(doc, datetime_types=True, binary_types=True, decimal_type=str)
        except xmlschema.XMLSchemaException as e:
            res.violation(f'typed-decode-raised:{typ}', case, f'{typ} {t!r}: {e!r}'[:200])
            return
        res.count('typed:decoded')
        if typ == 'decimal':
            if not (isinstance(doc_dec, str) and Decimal(doc_dec) == ref):
                res.violation('decimal_type-option-value-differs', case, f'{t!r}: {doc_dec!r} vs {ref!r}')
        elif typ in ('hexBinary', 'base64Binary'):
            v = getattr(doc_dec, 'value', doc_dec)
            raw = None
            try:
                raw = bytes(doc_dec) if not isinstance(doc_dec, str) else None
            except Exception:
                raw = None
            if raw is not None and typ == 'hexBinary' and raw not in (ref, n.upper().encode(), n.encode()):
                res.count('typed:binary_shape_unrecognised')
        else:
            if isinstance(doc_dec, str):
                res.violation(f'datetime_types-option-returns-text:{typ}', case, f'{t!r}: {doc_dec!r}')
        # every combination of the three options: a value is typed exactly when the option of its own family is set
        own = 'decimal_type' if typ == 'decimal' else 'binary_types' if typ in ('hexBinary', 'base64Binary') else 'datetime_types'
        for dt in (False, True):
            for bt in (False, True):
                for dec_t in (None, str):
                    opts = {'datetime_types': dt, 'binary_types': bt, 'decimal_type': dec_t}
                    try:
                        got = schema.decode(doc, **{k: v for k, v in opts.items() if v})
                    except xmlschema.XMLSchemaException as e:
                        res.violation(f'typed-decode-raised:{typ}', case, f'{typ} {t!r} {opts}: {e!r}'[:200])
                        continue
                    if got is None:
                        continue     # an empty element has no value to type
                    res.count('typed:option_matrix')
                    is_text = isinstance(got, str)
                    want_text = (dec_t is str) if typ == 'decimal' else not opts[own]
                    if is_text != want_text:
                        fam = 'decimal' if typ == 'decimal' else 'binary' if own == 'binary_types' else 'date-or-duration'
                        res.violation(f'typed-decoding-option-not-honoured:{fam}:{own}={"on" if opts[own] else "off"}', case,
                                      f'{typ} {t!r} with {opts}: decoded {got!r} ({type(got).__name__})')


# ---------------------------------------------------------------------------------------------
def run_derived(spec, res):
    """Restriction chains with facets, lists, unions: reference facet evaluation on top of the built-in reference."""
    xmlschema = env.activate_repo()
    from lxml import etree
    rng = env.rng_for(PROPERTY, spec['tier'], spec['seed'], 'derived', spec['dshard'])
    if spec['dshard'] == 0:
        # order of the member types of a union: those named by memberTypes first, then the anonymous children; the first
        # member that accepts the text decides the value
        for first, second, text, want in (('xs:string', 'xs:int', '1', str), ('xs:int', 'xs:string', '1', int),
                                          ('xs:boolean', 'xs:int', '1', bool), ('xs:int', 'xs:boolean', '1', int)):
            xsd = (f'<xs:schema xmlns:xs="{XS}"><xs:element name="e"><xs:simpleType><xs:union memberTypes="{first}">'
                   f'<xs:simpleType><xs:restriction base="{second}"/></xs:simpleType></xs:union></xs:simpleType></xs:element></xs:schema>')
            for version, cls in (('1.0', xmlschema.XMLSchema10), ('1.1', xmlschema.XMLSchema11)):
                got = cls(xsd).decode(f'<e>{text}</e>')
                res.evaluations += 1
                res.count('union_member_order:compared')
                if type(got) is not want:
                    res.violation('union-member-order:memberTypes-attribute-after-anonymous-children',
                                  {'schema': xsd, 'text': text, 'version': version},
                                  f'{version}: union memberTypes="{first}" + anonymous {second}: {text!r} decoded to {got!r} '
                                  f'({type(got).__name__}), the first member gives {want.__name__}')
    for i in range(spec['n']):
        kind = rng.choice(('int', 'decimal', 'double', 'string', 'token', 'date', 'list', 'union', 'hex', 'tz', 'ws'))
        facets1, facets2 = gen_facets(kind, rng), gen_facets(kind, rng)
        xsd, checker, texts = build_derived(kind, facets1, facets2, rng)
        if xsd is None:
            continue
        schemas = {}
        for version, cls in (('1.0', xmlschema.XMLSchema10), ('1.1', xmlschema.XMLSchema11)):
            try:
                schemas[version] = cls(xsd)
            except xmlschema.XMLSchemaException:
                res.count(f'derived:schema_refused:{version}')
        try:
            arb = etree.XMLSchema(etree.fromstring(xsd.encode()))
        except etree.XMLSchemaParseError:
            arb = None
        for version, schema in schemas.items():
            for t in texts:
                if not xml_ok(t):
                    continue
                want = checker(t, version)
                doc = f'<e xmlns:p="urn:p">{esc(t)}</e>'
                res.evaluations += 1
                res.nontrivial.add(env.h8((xsd, t)))
                try:
                    got = schema.is_valid(doc)
                except Exception as e:
                    res.violation(f'derived:exception:{type(e).__name__}', {'schema': xsd, 'text': t, 'version': version}, repr(e)[:200])
                    continue
                res.count(f'derived:{kind}:expected_{"valid" if want else "invalid"}')
                if got == want:
                    res.count('verdict:agree')
                    continue
                arb_valid = None
                if arb is not None:
                    try:
                        arb_valid = bool(arb.validate(etree.fromstring(doc.encode('utf-8'))))
                    except etree.XMLSyntaxError:
                        pass
                if arb_valid is not None and arb_valid == got:
                    res.count('disputed_by_arbiter')
                    res.inconclusive_case('arbiter sides with library', [kind, str(facets1), str(facets2), t[:40], got])
                    continue
                fk = sorted(set(facets1) | set(facets2))
                res.violation(f'derived:{"false-accept" if got else "false-reject"}:{kind}:{"+".join(fk) or "nofacets"}:{text_class("integer" if kind in ("int", "list", "union") else "string", t)}',
                              {'schema': xsd, 'text': t, 'version': version},
                              f'{version} {kind} facets {facets1} then {facets2}: {t!r} library valid={got} reference {want} libxml2={arb_valid}')
        if len(res.samples) < 3:
            res.sample({'kind': kind, 'facets_level1': facets1, 'facets_level2': facets2, 'texts': texts[:5]})


def gen_facets(kind, rng):
    f = {}
    if kind in ('int', 'decimal'):
        if rng.random() < 0.5:
            f['minInclusive' if rng.random() < 0.6 else 'minExclusive'] = str(rng.randint(-5, 5))
        if rng.random() < 0.5:
            f['maxInclusive' if rng.random() < 0.6 else 'maxExclusive'] = str(rng.randint(6, 20))
        if rng.random() < 0.3:
            f['totalDigits'] = str(rng.randint(1, 3))
        if kind == 'decimal' and rng.random() < 0.3:
            f['fractionDigits'] = str(rng.randint(0, 2))
        if rng.random() < 0.2:
            f['enumeration'] = ['1', '02', '7'] if kind == 'int' else ['1.0', '2.50', '7']
    elif kind == 'double':
        # bounds on a floating type: NaN is incomparable, so it satisfies no bound; the infinities are ordered
        if rng.random() < 0.7:
            f['minInclusive' if rng.random() < 0.5 else 'minExclusive'] = rng.choice(('-5', '0', '-INF', '1.5e0'))
        if rng.random() < 0.7:
            f['maxInclusive' if rng.random() < 0.5 else 'maxExclusive'] = rng.choice(('10', '1e2', 'INF', '7.5'))
    elif kind in ('string', 'token', 'hex'):
        r = rng.random()
        if r < 0.3:
            f['length'] = str(rng.randint(1, 4))
        elif r < 0.7:
            if rng.random() < 0.7:
                f['minLength'] = str(rng.randint(0, 2))
            if rng.random() < 0.7:
                f['maxLength'] = str(rng.randint(3, 5))
        if kind != 'hex' and rng.random() < 0.3:
            f['pattern'] = rng.choice(['[a-c]+', 'a.c', r'\d{2,3}', '[^b]*', 'a|bc', r'\s*x\s*'])
        if kind != 'hex' and rng.random() < 0.2:
            f['enumeration'] = ['ab', 'a b', 'abc']
    elif kind == 'date':
        if rng.random() < 0.6:
            f['minInclusive'] = '2020-01-10'
        if rng.random() < 0.6:
            f['maxExclusive'] = '2020-03-01'
    elif kind == 'ws':
        # level 1 tightens whiteSpace, level 2 adds a length-family or enumeration facet: the facets see the text as
        # normalised by the restricting type, not by its base
        pass
    elif kind == 'tz':
        f['explicitTimezone'] = rng.choice(('optional', 'required', 'prohibited'))
    elif kind == 'list':
        r = rng.random()
        if r < 0.4:
            f['length'] = str(rng.randint(1, 3))
        else:
            if rng.random() < 0.7:
                f['minLength'] = str(rng.randint(0, 2))
            if rng.random() < 0.7:
                f['maxLength'] = str(rng.randint(2, 4))
    return f


PY_PATTERNS = {'[a-c]+': r'[a-c]+', 'a.c': r'a[^\n\r]c', r'\d{2,3}': r'[0-9]{2,3}', '[^b]*': r'[^b]*', 'a|bc': r'a|bc',
               r'\s*x\s*': r'[ \t\n\r]*x[ \t\n\r]*'}


def facet_xml(f):
    out = ''
    for k, v in f.items():
        if k == 'enumeration':
            out += ''.join(f'<xs:enumeration value="{x}"/>' for x in v)
        else:
            out += f'<xs:{k} value="{esc(v)}"/>'
    return out


def numeric_facets_ok(f, v, lexical, kind):
    if 'minInclusive' in f and not v >= Decimal(f['minInclusive']):
        return False
    if 'minExclusive' in f and not v > Decimal(f['minExclusive']):
        return False
    if 'maxInclusive' in f and not v <= Decimal(f['maxInclusive']):
        return False
    if 'maxExclusive' in f and not v < Decimal(f['maxExclusive']):
        return False
    if 'totalDigits' in f or 'fractionDigits' in f:
        d = Decimal(v).normalize() if v != 0 else Decimal(0)
        digits = d.as_tuple()
        frac = max(0, -digits.exponent)
        total = max(len(digits.digits) + max(digits.exponent, 0), frac) if v != 0 else 1
        if 'totalDigits' in f and total > int(f['totalDigits']):
            return False
        if 'fractionDigits' in f and frac > int(f['fractionDigits']):
            return False
    if 'enumeration' in f and not any(v == Decimal(x) for x in f['enumeration']):
        return False
    return True


def string_facets_ok(f, s, length=None):
    n = len(s) if length is None else length
    if 'length' in f and n != int(f['length']):
        return False
    if 'minLength' in f and n < int(f['minLength']):
        return False
    if 'maxLength' in f and n > int(f['maxLength']):
        return False
    if 'pattern' in f and not re.fullmatch(PY_PATTERNS[f['pattern']], s):
        return False
    if 'enumeration' in f and s not in f['enumeration']:
        return False
    return True


def build_derived(kind, f1, f2, rng):
    base = {'int': 'xs:int', 'decimal': 'xs:decimal', 'double': rng.choice(('xs:double', 'xs:float')), 'string': 'xs:string', 'token': 'xs:token', 'date': 'xs:date',
            'hex': 'xs:hexBinary'}.get(kind)
    if kind == 'list':
        # item types: the length family counts list items whatever the item type is (for atomic QName / NOTATION the
        # facets are vacuous, for a list of QNames they are not)
        item = rng.choice(('int', 'int', 'QName', 'NMTOKEN', 'boolean'))
        xsd = (f'<xs:schema xmlns:xs="{XS}"><xs:simpleType name="L"><xs:list itemType="xs:{item}"/></xs:simpleType>'
               f'<xs:simpleType name="A"><xs:restriction base="L">{facet_xml(f1)}</xs:restriction></xs:simpleType>'
               f'<xs:simpleType name="B"><xs:restriction base="A">{facet_xml(f2)}</xs:restriction></xs:simpleType>'
               f'<xs:element name="e" type="B"/></xs:schema>')

        def item_ok(x, version):
            if item == 'QName':
                prefix, _, local = x.rpartition(':')
                return DT.lexical_ok('NCName', local, version) and (prefix in ('', 'p'))
            return DT.lexical_ok(item, x, version)

        def chk(t, version):
            items = DT.normalize('token', t).split(' ') if DT.normalize('token', t) else []
            if not all(item_ok(x, version) for x in items):
                return False
            return string_facets_ok(f1, '', length=len(items)) and string_facets_ok(f2, '', length=len(items))
        texts = {'int': ['', '1', '1 2', '1  2\t3', '1 2 3 4', '1 2 3 4 5', '1 x', '1 2.0', ' 7 ', '1_0 2', '+1 -2'],
                 'QName': ['', 'a', 'a p:b', 'a  p:b\tc', 'a b c d', 'p:a p:b p:c p:d p:e', 'a q:b', 'a 1b', ' p:a ', 'a:b:c', 'a b'],
                 'NMTOKEN': ['', 'a', 'a 1', '1  2\t3', 'a b c d', 'a b c d e', 'a b,c', 'a (b)', ' -x '],
                 'boolean': ['', 'true', '1 0', 'true  false\t1', '1 0 1 0', '1 0 1 0 1', 'true yes', 'TRUE', ' 0 ']}[item]
        # a no-break space (or another Unicode space) separates nothing: it is part of an item, which no item type here admits
        texts = texts + [texts[2].replace(' ', '\u00a0'), texts[2].replace(' ', '\u2003') + ' ' + texts[1]]
        return xsd, chk, texts
    if kind == 'union' and rng.random() < 0.4:
        # a pattern on a restriction of a union: it applies to the text as normalised by the member type that accepts
        # it (xs:string preserves whitespace, xs:int collapses it)
        pat = rng.choice(list(PY_PATTERNS))
        # (half of the time a second restriction step with a pattern of its own: the steps are and-ed)
        pat2 = rng.choice(list(PY_PATTERNS)) if rng.random() < 0.5 else None
        step2 = (f'<xs:simpleType name="R2"><xs:restriction base="R"><xs:pattern value="{esc(pat2)}"/></xs:restriction></xs:simpleType>'
                 if pat2 else '')
        xsd = (f'<xs:schema xmlns:xs="{XS}"><xs:simpleType name="U"><xs:union memberTypes="xs:int xs:string"/></xs:simpleType>'
               f'<xs:simpleType name="R"><xs:restriction base="U"><xs:pattern value="{esc(pat)}"/></xs:restriction></xs:simpleType>'
               f'{step2}<xs:element name="e" type="{"R2" if pat2 else "R"}"/></xs:schema>')

        def chk(t, version):
            n = DT.normalize('int', t)
            text = n if DT.lexical_ok('int', n, version) else t
            return bool(re.fullmatch(PY_PATTERNS[pat], text)) and (pat2 is None or bool(re.fullmatch(PY_PATTERNS[pat2], text)))
        texts = ['ab', 'ab ', ' ab', 'a b', 'ab  c', 'abc', 'axc', 'a\tc', '12', ' 12 ', '123', '1234', 'x', ' x ', 'x\n', 'bc', 'a', '', 'bbb', 'ccc ']
        return xsd, chk, texts
    if kind == 'union':
        xsd = (f'<xs:schema xmlns:xs="{XS}"><xs:simpleType name="S"><xs:restriction base="xs:int">{facet_xml(f1)}</xs:restriction></xs:simpleType>'
               f'<xs:simpleType name="U"><xs:union memberTypes="S xs:boolean"><xs:simpleType><xs:restriction base="xs:token">'
               f'<xs:enumeration value="big"/><xs:enumeration value="small one"/></xs:restriction></xs:simpleType></xs:union></xs:simpleType>'
               f'<xs:element name="e" type="U"/></xs:schema>')
        f1 = {k: v for k, v in f1.items()}

        def chk(t, version):
            n = DT.normalize('token', t)
            if DT.lexical_ok('int', n, version) and numeric_facets_ok(gen_int_only(f1), Decimal(int(n)), n, 'int'):
                return True
            if DT.lexical_ok('boolean', n, version):
                return True
            return n in ('big', 'small one')
        texts = ['1', '0', 'true', 'big', ' small   one ', 'small', '99', '-3', '7', 'TRUE', '', '1.0', '12', '02']
        return xsd, chk, texts
    # two-level restriction chain
    xsd = (f'<xs:schema xmlns:xs="{XS}"><xs:simpleType name="A"><xs:restriction base="{base}">{facet_xml(f1)}</xs:restriction></xs:simpleType>'
           f'<xs:simpleType name="B"><xs:restriction base="A">{facet_xml(f2)}</xs:restriction></xs:simpleType>'
           f'<xs:element name="e" type="B"/></xs:schema>')
    if kind in ('int', 'decimal'):
        bt = 'int' if kind == 'int' else 'decimal'

        def chk(t, version):
            n = DT.normalize(bt, t)
            if not DT.lexical_ok(bt, n, version):
                return False
            v = Decimal(int(n)) if bt == 'int' else Decimal(n)
            return numeric_facets_ok(f1, v, n, kind) and numeric_facets_ok(f2, v, n, kind)
        texts = ['0', '1', '02', '7', '-5', '-6', '5', '6', '20', '21', '100', '1.0', '2.50', '2.5', '7.00', '0.001', '1e1', ' 7 ', '1_0',
                 '+7', '12.34', '123', '1234', '.5', '-0.0', '0.0000000', '0.000', '7.0000000', '10.00', '0.0100']
        return xsd, chk, texts
    if kind == 'double':
        def chk(t, version):
            n = DT.normalize('double', t)
            if not DT.lexical_ok('double', n, version):
                return False
            v = DT.value('double', n)
            for f in (f1, f2):
                for name, ok in (('minInclusive', lambda b: v >= b), ('minExclusive', lambda b: v > b),
                                 ('maxInclusive', lambda b: v <= b), ('maxExclusive', lambda b: v < b)):
                    if name in f and not ok(DT.value('double', f[name])):
                        return False
            return True
        texts = ['0', '-0.0', '1', '7.5', '7.50001', '10', '1e2', '100.5', '-5', '-5.0001', '1.5', '1.49', 'INF', '-INF', 'NaN', '+INF',
                 ' 3 ', '1e400', '-1e400', '1e-400', 'nan', '0x1p3', '٣']
        return xsd, chk, texts
    if kind in ('string', 'token'):
        def chk(t, version):
            n = DT.normalize(kind, t)
            return string_facets_ok(f1, n) and string_facets_ok(f2, n)
        texts = ['', 'a', 'ab', 'abc', 'a b', 'a  b', ' ab ', 'abcd', 'abcde', 'abcdef', 'bc', '12', '123', 'x', ' x ', 'axc', 'a\nc', 'bbb', 'ccc']
        return xsd, chk, texts
    if kind == 'hex':
        def chk(t, version):
            n = DT.normalize('hexBinary', t)
            if not DT.lexical_ok('hexBinary', n, version):
                return False
            return string_facets_ok(f1, '', length=len(n) // 2) and string_facets_ok(f2, '', length=len(n) // 2)
        texts = ['', '0F', '0F0F', '0f0f0f', '0F0F0F0F', '0F0F0F0F0F', '0F0F0F0F0F0F', '0', 'zz']
        return xsd, chk, texts
    if kind == 'ws':
        base_t, ws = rng.choice((('string', 'replace'), ('string', 'collapse'), ('normalizedString', 'collapse')))
        f2 = rng.choice(({'length': '3'}, {'maxLength': '3'}, {'minLength': '4'}, {'enumeration': ['abc', 'a b']}, {}))
        xsd = (f'<xs:schema xmlns:xs="{XS}"><xs:simpleType name="A"><xs:restriction base="xs:{base_t}"><xs:whiteSpace value="{ws}"/>'
               f'</xs:restriction></xs:simpleType>'
               f'<xs:simpleType name="B"><xs:restriction base="A">{facet_xml(f2)}</xs:restriction></xs:simpleType>'
               f'<xs:element name="e" type="B"/></xs:schema>')

        def chk(t, version):
            n = re.sub('[\t\n\r]', ' ', t)
            if ws == 'collapse':
                n = re.sub(' +', ' ', n).strip(' ')
            return string_facets_ok(f2, n)
        texts = ['abc', ' abc ', 'a b', 'a  b', 'a\tb', ' a b\n', 'abcd', ' ab', 'ab ', '\nabc\n', 'a   b', '', '   ', 'abc  d']
        return xsd, chk, texts
    if kind == 'tz':
        # XSD 1.1 explicitTimezone on date / dateTime / time (an XSD 1.0 processor refuses the facet)
        base_t = rng.choice(('date', 'dateTime', 'time'))
        xsd = (f'<xs:schema xmlns:xs="{XS}"><xs:simpleType name="A"><xs:restriction base="xs:{base_t}">{facet_xml(f1)}</xs:restriction></xs:simpleType>'
               f'<xs:simpleType name="B"><xs:restriction base="A">{facet_xml(f2)}</xs:restriction></xs:simpleType>'
               f'<xs:element name="e" type="B"/></xs:schema>')

        def chk(t, version):
            n = DT.normalize(base_t, t)
            if not DT.lexical_ok(base_t, n, version):
                return False
            has_tz = bool(re.search(r'(Z|[+-]\d\d:\d\d)$', n))
            for f in (f1, f2):
                if f.get('explicitTimezone') == 'required' and not has_tz:
                    return False
                if f.get('explicitTimezone') == 'prohibited' and has_tz:
                    return False
            return True
        texts = {'date': ['2020-01-09', '2020-01-09Z', '2020-01-09+02:00', '2020-01-09-14:00', ' 2020-02-29Z ', '2020-02-30Z', 'x'],
                 'dateTime': ['2020-01-09T10:00:00', '2020-01-09T10:00:00Z', '2020-01-09T10:00:00.5-05:00', '2020-01-09T24:00:00', '2020-01-09T10:00Z', 'x'],
                 'time': ['10:00:00', '10:00:00Z', '23:59:59.9+14:00', '24:00:00Z', '10:00', 'x']}[base_t]
        return xsd, chk, texts
    if kind == 'date':
        def chk(t, version):
            n = DT.normalize('date', t)
            if not DT.lexical_ok('date', n, version) or not re.fullmatch(r'\d{4}-\d\d-\d\d', n):
                return DT.lexical_ok('date', n, version) and not (f1 or f2)
            for f in (f1, f2):
                if 'minInclusive' in f and n < f['minInclusive']:
                    return False
                if 'maxExclusive' in f and n >= f['maxExclusive']:
                    return False
            return True
        texts = ['2020-01-09', '2020-01-10', '2020-02-29', '2020-03-01', '2020-02-30', '2019-12-31', '2021-01-01', 'x']
        return xsd, chk, texts
    return None, None, None


def gen_int_only(f):
    return {k: v for k, v in f.items() if k in ('minInclusive', 'minExclusive', 'maxInclusive', 'maxExclusive', 'totalDigits', 'enumeration')}


def run_shard(spec, res):
    {'builtins': run_builtins, 'derived': run_derived}[spec['kind']](spec, res)


def finalize(res, tier):
    c = res.counters
    reasons = []
    if c.get('verdict:agree', 0) < 2000:
        reasons.append('fewer than 2000 verdicts compared')
    if c.get('value:compared', 0) < 300 or c.get('roundtrip:compared', 0) < 300:
        reasons.append('too few value / round-trip comparisons')
    total = c.get('verdict:agree', 0) + 1
    if c.get('disputed_by_arbiter', 0) > 0.02 * total:
        reasons.append('disputed fraction above 2%: the reference needs repair')
    return {'inconclusive': reasons}


def replay(case):
    xmlschema = env.activate_repo()
    from lxml import etree
    cls = xmlschema.XMLSchema11 if case['version'] == '1.1' else xmlschema.XMLSchema10
    if 'type' in case:
        xsd = f'<xs:schema xmlns:xs="{XS}"><xs:element name="e" type="xs:{case["type"]}"/></xs:schema>'
        want = DT.lexical_ok(case['type'], DT.normalize(case['type'], case['text']), case['version'])
    else:
        xsd = case['schema']
        want = None
    s = cls(xsd)
    doc = f'<e>{esc(case["text"])}</e>'
    got = s.is_valid(doc)
    print(xsd)
    print(repr(case['text']), 'library valid', got, 'reference', want)
    try:
        print('libxml2', etree.XMLSchema(etree.fromstring(xsd.encode())).validate(etree.fromstring(doc.encode())))
    except Exception as e:
        print('libxml2 n/a', str(e)[:80])
    if got:
        print('decoded', repr(s.decode(doc)))
    return want is None or got != want
