"""C03 - attribute sets are validated per declared uses, value constraints and wildcards."""
import itertools
import os
import tempfile
from decimal import Decimal

from vk import env

PROPERTY = 'C03'
LEVEL = 'exploration'
RULE = ('seeded attribute declarations: 1-4 attributes with use {optional, required, prohibited}, form, fixed / default, local '
        'or reference to a global attribute of the target or of an imported namespace, directly or through (nested) attribute '
        'groups, types {int, decimal, boolean, date, string}; attribute wildcard {none, ##any, ##other, ##local, '
        '##targetNamespace, list} x processContents {strict, lax, skip}; instance attribute sets = every subset of a name pool '
        '(declared names, the same local name in the other namespace, global attributes of the target and of the imported '
        'namespace, undeclared names in known and unknown namespaces, xsi:schemaLocation, an unknown xsi attribute) with a '
        'seeded value assignment from {valid, invalid, value-equal-to-fixed, lexically-equal-to-fixed}; use_defaults and '
        'fill_missing on / off; XMLSchema10 and XMLSchema11; a case = (declaration, attribute set); distinct non-trivial = '
        'distinct (declaration, attribute set) where a wildcard, a fixed / default value or a prohibited use is involved')
RULE += (' ' + 'Union attribute type of two primitive types (integer / boolean) for fixed values; shard defattrs: XSD 1.1 defaultAttributes x lexical forms of defaultAttributesApply x plain / extension types x all attribute subsets.')
ASSUMPTIONS = [
    'use="prohibited" is read as the recommendation does: the use is absent from the type, so a matching wildcard decides',
    'xsi:type / nil / schemaLocation / noNamespaceSchemaLocation are admitted on every element, other xsi:* names are errors',
    'fixed values compare in the value space of the declared type',
    'libxml2 (lxml) arbitrates XSD 1.0 verdicts: a disagreement where it sides with the library is counted as disputed',
]
ANCHORS = {
    'xmlschema/validators/attributes.py': [(241, 294), (638, 734)],
    'xmlschema/validators/wildcards.py': [(164, 186), (669, 695)],
}
SHARD_TIMEOUT = {'quick': 900, 'thorough': 3600}
LEVEL_TEXT = ('Runtime monitoring with a reference-model oracle: a set-based model of attribute uses, value constraints and '
              'wildcards (written from the recommendation, independent of the library\'s structures) decides every subset of a '
              'name pool for seeded declarations; verdicts and the keys of decoded data are compared with the real validators, '
              'libxml2 acting as arbiter for XSD 1.0.')
LEVEL_NOTE = 'Trusted: the 80-line attribute-set model, the declaration renderer, libxml2 as tie-breaker.'
TECHNIQUE = 'runtime monitoring: reference-model oracle (attribute-set algebra) with libxml2 arbiter'

XS = 'http://www.w3.org/2001/XMLSchema'
XSI = 'http://www.w3.org/2001/XMLSchema-instance'
T = 'urn:vk:at'
N1 = 'urn:vk:at1'
N2 = 'urn:vk:unknown'
TYPES = {
    'int': (['5', '05', '-7'], ['x', '1.5', '']),
    'decimal': (['1.50', '1.5', '0'], ['1,5', 'abc']),
    'boolean': (['true', '0', '1'], ['2', 'yes']),
    'date': (['2020-01-01', '1999-12-31Z'], ['2020-13-01', 'today']),
    'string': (['anything', ''], []),
    # a union whose members decode equal values to different Python classes (int / Decimal): one value space all the same
    'num': (['1', '1.0', '2.50', '07'], ['x', '1e3']),
    # a union of two primitive types whose Python values compare equal (1 == True) although the XSD values differ
    'ib': (['1', 'true', '0', 'false', '07'], ['x', '1.5']),
}
FIXED = {'int': ('5', ['05', '+5'], ['6']), 'decimal': ('1.0', ['1.00', '1'], ['1.01']),
         'boolean': ('true', ['1'], ['false']), 'date': ('2020-01-01', [], ['2020-01-02']),
         'string': ('abc', [], ['abd', 'ABC']), 'num': ('1', ['1.0', '01', '1.00'], ['1.01', '2']),
         'ib': ('true', [], ['1', '0', 'false'])}


def value_valid(typ, v):
    if typ == 'string':
        return True
    v = v.strip()
    try:
        if typ == 'int':
            import re
            return bool(re.fullmatch(r'[+-]?\d+', v)) and -2**31 <= int(v) < 2**31
        if typ in ('decimal', 'num'):
            import re
            return bool(re.fullmatch(r'[+-]?(\d+(\.\d*)?|\.\d+)', v))
        if typ == 'boolean':
            return v in ('true', 'false', '0', '1')
        if typ == 'ib':
            import re
            return bool(re.fullmatch(r'[+-]?\d+', v)) or v in ('true', 'false')
        if typ == 'date':
            import re
            import datetime
            m = re.fullmatch(r'(-?\d{4,})-(\d\d)-(\d\d)(Z|[+-]\d\d:\d\d)?', v)
            if not m:
                return False
            datetime.date(int(m.group(1)), int(m.group(2)), int(m.group(3)))
            return True
    except (ValueError, OverflowError):
        return False
    return False


def value_of(typ, v):
    if typ == 'string':
        return v
    v = v.strip()
    if typ == 'int':
        return int(v)
    if typ in ('decimal', 'num'):
        return Decimal(v)
    if typ == 'boolean':
        return v in ('true', '1')
    if typ == 'ib':   # first matching member: integer, then boolean; the two value spaces are disjoint
        return ('b', v == 'true') if v in ('true', 'false') else ('i', int(v))
    return v


# ---------------------------------------------------------------------------------------------
def gen_decl(rng):
    """A declaration = dict(attrs=[...], wildcard=None|(nscon, pc), group=bool)."""
    attrs = []
    names = rng.sample(['a', 'b', 'c', 'd'], rng.randint(1, 4))
    for nm in names:
        kind = rng.choice(('local', 'local', 'local', 'ref_ga', 'ref_gb', 'ref_gd'))
        use = rng.choice(('optional', 'optional', 'required', 'prohibited'))
        typ = rng.choice(list(TYPES))
        a = {'name': nm, 'kind': kind, 'use': use, 'type': typ, 'form': rng.choice(('unqualified', 'unqualified', 'qualified')),
             'fixed': None, 'default': None}
        if kind == 'ref_ga':
            a.update(name='ga', type='int', form='qualified')
        if kind == 'ref_gb':
            a.update(name='gb', type='boolean', form='qualified')
        if kind == 'ref_gd':
            # the global declaration carries default="7": a use with no constraint of its own inherits it, a use with
            # its own fixed / default replaces it
            a.update(name='gd', type='int', form='qualified', inherited_default='7')
        if any(x['name'] == a['name'] and x['kind'] == a['kind'] for x in attrs):
            continue
        r = rng.random()
        if use != 'prohibited':
            if r < 0.25:
                a['fixed'] = FIXED[a['type']][0]
            elif r < 0.45 and use == 'optional':
                a['default'] = TYPES[a['type']][0][0]
        attrs.append(a)
    wc = None
    if rng.random() < 0.7:
        wc = (rng.choice(('##any', '##other', '##local', '##targetNamespace', f'{N1} ##local')), rng.choice(('strict', 'lax', 'skip')))
    return {'attrs': attrs, 'wildcard': wc, 'group': rng.random() < 0.35, 'nested_group': rng.random() < 0.15,
            'siblings': rng.random() < 0.5}


def attr_xml(a):
    if a['kind'] == 'local':
        s = f'<xs:attribute name="{a["name"]}" type="{"t:Num" if a["type"] == "num" else "t:IB" if a["type"] == "ib" else "xs:" + a["type"]}" form="{a["form"]}"'
    elif a['kind'] == 'ref_ga':
        s = '<xs:attribute ref="t:ga"'
    elif a['kind'] == 'ref_gd':
        s = '<xs:attribute ref="t:gd"'
    else:
        s = '<xs:attribute ref="i:gb"'
    if a['use'] != 'optional':
        s += f' use="{a["use"]}"'
    if a['fixed'] is not None:
        s += f' fixed="{a["fixed"]}"'
    if a['default'] is not None:
        s += f' default="{a["default"]}"'
    return s + '/>'


def schema_text(decl):
    body = ''.join(attr_xml(a) for a in decl['attrs'])
    wc = ''
    if decl['wildcard']:
        wc = f'<xs:anyAttribute namespace="{decl["wildcard"][0]}" processContents="{decl["wildcard"][1]}"/>'
    groups = ''
    if decl['group']:
        if decl['nested_group']:
            half = len(decl['attrs']) // 2
            inner = ''.join(attr_xml(a) for a in decl['attrs'][:half])
            outer = ''.join(attr_xml(a) for a in decl['attrs'][half:])
            groups = (f'<xs:attributeGroup name="G2">{inner}</xs:attributeGroup>'
                      f'<xs:attributeGroup name="G1"><xs:attributeGroup ref="t:G2"/>{outer}{wc}</xs:attributeGroup>')
        else:
            groups = f'<xs:attributeGroup name="G1">{body}{wc}</xs:attributeGroup>'
        content = '<xs:attributeGroup ref="t:G1"/>'
        if decl.get('siblings'):
            # other users of the same group that combine its wildcard with another one (intersection with an own
            # wildcard, union with a base type's wildcard): the group's own wildcard must stay what it declares
            groups += (f'<xs:element name="sib1"><xs:complexType><xs:attributeGroup ref="t:G1"/>'
                       f'<xs:anyAttribute namespace="##local" processContents="skip"/></xs:complexType></xs:element>'
                       f'<xs:complexType name="SibBase"><xs:anyAttribute namespace="{N2}" processContents="skip"/></xs:complexType>'
                       f'<xs:element name="sib2"><xs:complexType><xs:complexContent><xs:extension base="t:SibBase">'
                       f'<xs:attributeGroup ref="t:G1"/></xs:extension></xs:complexContent></xs:complexType></xs:element>')
    else:
        content = body + wc
    return (f'<xs:schema xmlns:xs="{XS}" targetNamespace="{T}" xmlns:t="{T}" xmlns:i="{N1}" elementFormDefault="qualified">'
            f'<xs:import namespace="{N1}" schemaLocation="imp.xsd"/>'
            f'<xs:attribute name="ga" type="xs:int"/><xs:attribute name="gx" type="xs:date"/>'
            f'<xs:attribute name="gd" type="xs:int" default="7"/>{groups}'
            f'<xs:simpleType name="Num"><xs:union memberTypes="xs:integer xs:decimal"/></xs:simpleType>'
            f'<xs:simpleType name="IB"><xs:union memberTypes="xs:integer xs:boolean"/></xs:simpleType>'
            f'<xs:element name="e"><xs:complexType>{content}</xs:complexType></xs:element></xs:schema>')


IMP_XSD = (f'<xs:schema xmlns:xs="{XS}" targetNamespace="{N1}"><xs:attribute name="gb" type="xs:boolean"/>'
           f'<xs:attribute name="gy" type="xs:int"/></xs:schema>')
GLOBALS = {(T, 'ga'): 'int', (T, 'gx'): 'date', (T, 'gd'): 'int', (N1, 'gb'): 'boolean', (N1, 'gy'): 'int'}


def declared_map(decl):
    """expanded name -> attribute dict, prohibited uses excluded (and remembered separately).
    An attributeGroup definition drops prohibited uses; in a complex type they are simply no uses either."""
    m, prohibited = {}, set()
    for a in decl['attrs']:
        if a['kind'] == 'local':
            key = (T if a['form'] == 'qualified' else '', a['name'])
        elif a['kind'] == 'ref_ga':
            key = (T, 'ga')
        elif a['kind'] == 'ref_gd':
            key = (T, 'gd')
        else:
            key = (N1, 'gb')
        if a['use'] == 'prohibited':
            prohibited.add(key)
        else:
            if a.get('inherited_default') and a['fixed'] is None and a['default'] is None:
                a = dict(a, default=a['inherited_default'])      # effective value constraint of the use
            m[key] = a
    return m, prohibited


def wildcard_admits(wc, ns):
    if wc is None:
        return False
    con = wc[0]
    if con == '##any':
        return True
    if con == '##other':
        return ns not in ('', T)
    toks = con.split()
    allowed = set()
    for t in toks:
        allowed.add('' if t == '##local' else (T if t == '##targetNamespace' else t))
    return ns in allowed


def ref_valid(decl, aset):
    """aset: {(ns, local): value}. Returns (valid, tags)."""
    m, prohibited = declared_map(decl)
    tags = set()
    ok = True
    for key, a in m.items():
        if a['use'] == 'required' and key not in aset:
            ok = False
            tags.add('missing-required')
    for key, v in aset.items():
        ns, local = key
        if ns == XSI and local in ('type', 'nil', 'schemaLocation', 'noNamespaceSchemaLocation'):
            continue
        if ns == XSI:
            tags.add('unknown-xsi')   # an ordinary attribute of that namespace: only a wildcard can admit it
        if key in m:
            a = m[key]
            if not value_valid(a['type'], v):
                ok = False
                tags.add('invalid-value')
            elif a['fixed'] is not None:
                tags.add('fixed')
                if value_of(a['type'], v) != value_of(a['type'], a['fixed']):
                    ok = False
                    tags.add('fixed-mismatch')
            continue
        if key in prohibited:
            tags.add('prohibited-present')
        if wildcard_admits(decl['wildcard'], ns):
            tags.add('wildcard')
            if key in prohibited:
                tags.add('prohibited+wildcard-match')
            pc = decl['wildcard'][1]
            g = GLOBALS.get(key)
            if pc == 'skip':
                continue
            if g is None:
                if pc == 'strict':
                    ok = False
                    tags.add('strict-no-declaration')
                continue
            if not value_valid(g, v):
                ok = False
                tags.add('wildcard-invalid-value')
            continue
        ok = False
        tags.add('not-allowed')
    return ok, tags


def expected_keys(decl, aset, use_defaults, fill_missing):
    m, prohibited = declared_map(decl)
    keys = set(k for k in aset)
    for key, a in m.items():
        if key in aset:
            continue
        if a['fixed'] is not None:
            keys.add(key)
        elif a['default'] is not None and use_defaults:
            keys.add(key)
        elif fill_missing:
            keys.add(key)
    if fill_missing:
        keys |= prohibited   # the library keeps prohibited declarations in the group: reported, see below
    return keys


# ---------------------------------------------------------------------------------------------
PREFIX = {T: 't', N1: 'i', N2: 'u', XSI: 'xsi'}


def instance(aset):
    s = f'<t:e xmlns:t="{T}" xmlns:i="{N1}" xmlns:u="{N2}" xmlns:xsi="{XSI}"'
    for (ns, local), v in aset.items():
        v = v.replace('&', '&amp;').replace('"', '&quot;').replace('<', '&lt;')
        s += f' {PREFIX[ns]}:{local}="{v}"' if ns else f' {local}="{v}"'
    return s + '/>'


def candidates(decl, rng):
    """Name pool for one declaration: [(key, [values])]."""
    m, prohibited = declared_map(decl)
    pool = []
    for key, a in list(m.items())[:4]:
        vals = list(TYPES[a['type']][0][:2]) + list(TYPES[a['type']][1][:1])
        if a['fixed'] is not None:
            fx = FIXED[a['type']]
            vals = [fx[0]] + fx[1][:1] + fx[2][:1]
        pool.append((key, vals))
        # the same local name in the other namespace
        other = ('' if key[0] else T, key[1])
        if other not in m and other[1] not in ('ga', 'gb', 'gd') and rng.random() < 0.5:
            pool.append((other, ['5']))
    for key in list(prohibited)[:2]:
        pool.append((key, ['5', 'x']))
    extra = [((T, 'ga'), ['7', 'x']), ((T, 'gd'), ['7', 'x']), ((N1, 'gb'), ['true', '2']), ((N1, 'gy'), ['3']), ((N2, 'zz'), ['v']),
             ((T, 'undecl'), ['v']), (('', 'undecl'), ['v']),
             ((XSI, 'schemaLocation'), ['urn:x y.xsd']), ((XSI, 'foo'), ['1'])]
    rng.shuffle(extra)
    for key, vals in extra:
        if key not in m and key not in prohibited and len(pool) < 8:
            pool.append((key, vals))
    return pool[:8]


def plan(tier, seed):
    n = 400 if tier == 'quick' else 3000
    shards = 16 if tier == 'quick' else 48
    return [{'kind': 'decls', 'n': n // shards, 'dshard': s} for s in range(shards)] + [{'kind': 'governing', 'dshard': 0}, {'kind': 'defattrs', 'dshard': 0}]


# ---------------------------------------------------------------------------------------------
# The attribute set that applies is the one of the *governing* type (xsi:type), exhaustive small catalogue
GOV_XSD = f'''<xs:schema xmlns:xs="{XS}" targetNamespace="{T}" xmlns:t="{T}" elementFormDefault="qualified">
  <xs:complexType name="Base"><xs:attribute name="a" type="xs:int"/></xs:complexType>
  <xs:complexType name="Der"><xs:complexContent><xs:extension base="t:Base"><xs:attribute name="b" type="xs:int" use="required"/></xs:extension></xs:complexContent></xs:complexType>
  <xs:complexType name="DerR"><xs:complexContent><xs:restriction base="t:Base"><xs:attribute name="a" type="xs:int" use="prohibited"/></xs:restriction></xs:complexContent></xs:complexType>
  <xs:complexType name="SC"><xs:simpleContent><xs:extension base="xs:int"><xs:attribute name="u" type="xs:string"/></xs:extension></xs:simpleContent></xs:complexType>
  <xs:element name="r"><xs:complexType><xs:choice maxOccurs="unbounded">
    <xs:element name="e_base" type="t:Base"/><xs:element name="e_any" type="xs:anyType"/><xs:element name="e_none"/>
    <xs:element name="e_int" type="xs:int"/><xs:element name="e_sc" type="t:SC"/>
  </xs:choice></xs:complexType></xs:element>
</xs:schema>'''
# governing type -> (allowed attribute names or None for "any", required names, content text)
GOV_TYPES = {'t:Base': ({'a'}, set(), ''), 't:Der': ({'a', 'b'}, {'b'}, ''), 't:DerR': (set(), set(), ''), 't:SC': ({'u'}, set(), '3'),
             'xs:int': (set(), set(), '3'), 'xs:anyType': (None, set(), ''), 'xs:string': (set(), set(), 'x')}
GOV_ELEMENTS = {'e_base': ('t:Base', ('t:Der', 't:DerR')), 'e_any': ('xs:anyType', ('xs:int', 't:SC', 't:Base', 't:Der', 'xs:string')),
                'e_none': ('xs:anyType', ('xs:int', 't:SC', 't:Base', 't:Der', 'xs:string')), 'e_int': ('xs:int', ()), 'e_sc': ('t:SC', ())}
GOV_ATTRS = (('a', '1'), ('b', '2'), ('u', 'x'), ('zz', '1'))


def run_governing(spec, res):
    xmlschema = env.activate_repo()
    from lxml import etree
    arb = etree.XMLSchema(etree.fromstring(GOV_XSD.encode()))
    for version, cls in (('1.0', xmlschema.XMLSchema10), ('1.1', xmlschema.XMLSchema11)):
        schema = cls(GOV_XSD)
        for ename, (decl, subs) in GOV_ELEMENTS.items():
            for xt in (None,) + subs:
                gov = xt or decl
                allowed, required, text = GOV_TYPES[gov]
                for r in range(len(GOV_ATTRS) + 1):
                    for subset in itertools.combinations(GOV_ATTRS, r):
                        names = {n for n, _ in subset}
                        want = required <= names and (allowed is None or names <= allowed)
                        attrs = ''.join(f' {n}="{v}"' for n, v in subset) + (f' xsi:type="{xt}"' if xt else '')
                        doc = f'<t:r xmlns:t="{T}" xmlns:xs="{XS}" xmlns:xsi="{XSI}"><t:{ename}{attrs}>{text}</t:{ename}></t:r>'
                        res.evaluations += 1
                        res.count('governing:cases')
                        if xt:
                            res.nontrivial.add(env.h8(('gov', version, ename, xt, tuple(sorted(names)))))
                        got = schema.is_valid(doc)
                        if got == want:
                            res.count('verdict:agree')
                            if want:
                                data = schema.decode(doc)
                                e = data.get(f't:{ename}')
                                e = e[0] if isinstance(e, list) else e
                                keys = {k[1:] for k in e if k.startswith('@') and not k.startswith(('@xsi:', '@xmlns'))} if isinstance(e, dict) else set()
                                if keys != names:
                                    res.violation('governing-type:decoded-attribute-keys-differ', {'schema': GOV_XSD, 'doc': doc, 'version': version},
                                                  f'{version}: <{ename} xsi:type={xt}> attributes {sorted(names)} decoded as {sorted(keys)}')
                                else:
                                    res.count('data:agree')
                            continue
                        arb_valid = bool(arb.validate(etree.fromstring(doc.encode())))
                        if version == '1.0' and arb_valid == got:
                            res.count('disputed_by_arbiter')
                            res.inconclusive_case('arbiter sides with library', [ename, xt, sorted(names)])
                            continue
                        res.violation(f'governing-type:{"false-accept" if got else "false-reject"}:{"declared" if not xt else "xsi-type-" + ("simple" if gov.startswith("xs:") else "complex")}',
                                      {'schema': GOV_XSD, 'doc': doc, 'version': version},
                                      f'{version}: <{ename} xsi:type={xt}> with attributes {sorted(names)}: library valid={got}, governing type {gov} '
                                      f'allows {sorted(allowed) if allowed is not None else "any"} requires {sorted(required)}; libxml2={arb_valid}')


# XSD 1.1 default attribute group: it joins the attribute uses of every complex type of the schema document unless the
# type says defaultAttributesApply = false (an xs:boolean: 'false' / '0', white space collapsed). Exhaustive catalogue.
DEFATTR_APPLY = (None, 'true', '1', ' 1 ', 'false', '0', ' 0 ', ' false ')
DEFATTR_ATTRS = (('own', '1'), ('dr', '2'), ('df', '9'), ('dd', '5'), ('zz', '1'))


def defattrs_xsd(apply_values, derived):
    types = ''
    for i, ap in enumerate(apply_values):
        ap_xml = f' defaultAttributesApply="{ap}"' if ap is not None else ''
        own = '<xs:attribute name="own" type="xs:int"/>'
        if derived:
            types += (f'<xs:complexType name="B{i}" defaultAttributesApply="false"><xs:sequence/></xs:complexType>'
                      f'<xs:element name="e{i}"><xs:complexType{ap_xml}><xs:complexContent><xs:extension base="t:B{i}">{own}'
                      f'</xs:extension></xs:complexContent></xs:complexType></xs:element>')
        else:
            types += f'<xs:element name="e{i}"><xs:complexType{ap_xml}>{own}</xs:complexType></xs:element>'
    return (f'<xs:schema xmlns:xs="{XS}" targetNamespace="{T}" xmlns:t="{T}" elementFormDefault="qualified" defaultAttributes="t:DA">'
            f'<xs:attributeGroup name="DA"><xs:attribute name="dr" type="xs:int" use="required"/>'
            f'<xs:attribute name="df" type="xs:int" fixed="9"/><xs:attribute name="dd" type="xs:int" default="5"/></xs:attributeGroup>'
            f'{types}</xs:schema>')


def run_defattrs(spec, res):
    xmlschema = env.activate_repo()
    for derived in (False, True):
        text = defattrs_xsd(DEFATTR_APPLY, derived)
        schema = xmlschema.XMLSchema11(text)
        for i, ap in enumerate(DEFATTR_APPLY):
            applies = ap is None or ap.strip() in ('true', '1')
            allowed = {'own'} | ({'dr', 'df', 'dd'} if applies else set())
            required = {'dr'} if applies else set()
            for r in range(len(DEFATTR_ATTRS) + 1):
                for subset in itertools.combinations(DEFATTR_ATTRS, r):
                    names = {n for n, _ in subset}
                    want = required <= names and names <= allowed
                    doc = f'<t:e{i} xmlns:t="{T}"' + ''.join(f' {n}="{v}"' for n, v in subset) + '/>'
                    res.evaluations += 1
                    res.count('defattrs:cases')
                    res.nontrivial.add(env.h8(('defattrs', derived, ap, tuple(sorted(names)))))
                    case = {'schema': text, 'doc': doc, 'version': '1.1'}
                    got = schema.is_valid(doc)
                    if got != want:
                        res.violation(f'default-attributes:{"false-accept" if got else "false-reject"}:apply={"yes" if applies else "no"}', case,
                                      f'1.1: defaultAttributesApply={ap!r} ({"extension" if derived else "plain"}) attributes {sorted(names)}: '
                                      f'library valid={got}, the default group {"applies" if applies else "does not apply"}')
                        continue
                    res.count('verdict:agree')
                    if not want:
                        continue
                    for use_defaults in (True, False):
                        data = schema.decode(doc, use_defaults=use_defaults)
                        keys = {k[1:] for k in data if k.startswith('@') and not k.startswith(('@xsi:', '@xmlns'))} if isinstance(data, dict) else set()
                        expect = set(names)
                        if applies:
                            expect |= {'df'} | ({'dd'} if use_defaults else set())
                        if keys != expect:
                            res.violation(f'default-attributes:decoded-attribute-keys:apply={"yes" if applies else "no"}:use_defaults={use_defaults}',
                                          dict(case, use_defaults=use_defaults),
                                          f'1.1: defaultAttributesApply={ap!r} attributes {sorted(names)} decoded keys {sorted(keys)} expected {sorted(expect)}')
                        else:
                            res.count('data:agree')


def run_shard(spec, res):
    if spec.get('kind') == 'governing':
        return run_governing(spec, res)
    if spec.get('kind') == 'defattrs':
        return run_defattrs(spec, res)
    xmlschema = env.activate_repo()
    from lxml import etree
    rng = env.rng_for(PROPERTY, spec['tier'], spec['seed'], spec['dshard'])
    scratch = tempfile.mkdtemp(prefix='c03-')
    with open(os.path.join(scratch, 'imp.xsd'), 'w') as f:
        f.write(IMP_XSD)
    main_path = os.path.join(scratch, 'main.xsd')
    for d in range(spec['n']):
        decl = gen_decl(rng)
        text = schema_text(decl)
        with open(main_path, 'w') as f:
            f.write(text)
        schemas = {}
        for version, cls in (('1.0', xmlschema.XMLSchema10), ('1.1', xmlschema.XMLSchema11)):
            try:
                schemas[version] = cls(main_path)
            except xmlschema.XMLSchemaException as e:
                res.count(f'declaration_refused:{version}')
                schemas[version] = None
        try:
            arb = etree.XMLSchema(etree.parse(main_path))
        except etree.XMLSchemaParseError:
            arb = None
            res.count('arbiter_refused_declaration')
        if all(s is None for s in schemas.values()):
            continue
        pool = candidates(decl, rng)
        for r in range(len(pool) + 1):
            for subset in itertools.combinations(range(len(pool)), r):
                if len(pool) > 6 and r > 4 and rng.random() < 0.6:
                    continue
                aset = {pool[i][0]: rng.choice(pool[i][1]) for i in subset}
                doc = instance(aset)
                want, tags = ref_valid(decl, aset)
                case = {'schema': text, 'doc': doc}
                nontrivial = bool(tags & {'wildcard', 'fixed', 'prohibited-present'}) or any(a['default'] or a.get('inherited_default') for a in decl['attrs'])
                for version, schema in schemas.items():
                    if schema is None:
                        continue
                    res.evaluations += 1
                    if nontrivial:
                        res.nontrivial.add(env.h8((text, doc)))
                    got = schema.is_valid(doc)
                    res.count(f'{version}:expected_{"valid" if want else "invalid"}')
                    if got != want:
                        arb_valid = None
                        if arb is not None and version == '1.0':
                            arb_valid = bool(arb.validate(etree.fromstring(doc.encode())))
                        if arb_valid is not None and arb_valid == got:
                            res.count('disputed_by_arbiter')
                            res.inconclusive_case('arbiter sides with library', [sorted(tags), doc[:200]])
                            continue
                        direction = 'false-accept' if got else 'false-reject'
                        cls_tags = sorted(tags & {'prohibited+wildcard-match', 'prohibited-present', 'fixed-mismatch', 'strict-no-declaration',
                                                  'wildcard-invalid-value', 'unknown-xsi', 'missing-required', 'invalid-value', 'not-allowed'})
                        if 'prohibited-present' in tags:
                            cls_tags = ['prohibited-use-present' + ('+wildcard-match' if 'prohibited+wildcard-match' in tags else '')]
                        res.violation(f'{direction}:{"+".join(cls_tags) or "plain"}', dict(case, version=version),
                                      f'{version} {direction}: tags {sorted(tags)} libxml2={arb_valid} decl {text[text.index("<xs:element"):][:300]} doc {doc[60:260]}')
                        continue
                    res.count('verdict:agree')
                    if want and 'prohibited-present' not in tags:
                        check_data(res, xmlschema, schema, decl, aset, doc, case, version, rng)
        if len(res.samples) < 2:
            res.sample({'declaration': text[text.index('<xs:element'):][:400], 'pool': [list(k) for k, _ in pool]})


def check_data(res, xmlschema, schema, decl, aset, doc, case, version, rng):
    use_defaults = rng.random() < 0.5
    fill_missing = rng.random() < 0.3
    try:
        data = schema.decode(doc, use_defaults=use_defaults, fill_missing=fill_missing)
    except xmlschema.XMLSchemaException as e:
        res.violation('decode-raised-on-valid-document', dict(case, version=version), f'{type(e).__name__}: {str(e)[:200]}')
        return
    got = set()
    values = {}
    nsmap = {'t': T, 'i': N1, 'u': N2, 'xsi': XSI}
    if isinstance(data, dict):
        for k in data:
            if isinstance(k, str) and k.startswith('@') and not k.startswith('@xmlns'):
                name = k[1:]
                if name.startswith('{'):
                    ns, local = name[1:].split('}')
                elif ':' in name:
                    p, local = name.split(':')
                    ns = nsmap.get(p, p)
                else:
                    ns, local = '', name
                got.add((ns, local))
                values[(ns, local)] = data[k]
    m, prohibited = declared_map(decl)
    want = expected_keys(decl, aset, use_defaults, fill_missing) - (prohibited if fill_missing else set())
    got_cmp = got - prohibited if fill_missing else got
    res.count('data:compared')
    # attributes admitted only through the wildcard may or may not be kept in the data (keep_unknown /
    # process_skipped options): the property does not constrain them, compare the declared ones
    undeclared = {k for k in aset if k not in m}
    got_cmp = got_cmp - undeclared
    want = want - undeclared
    if got_cmp != want:
        missing = sorted(want - got_cmp)
        extra = sorted(got_cmp - want)
        kinds = []
        for key in missing + extra:
            a = m.get(key)
            if a is None:
                kinds.append('undeclared')
            elif a['fixed'] is not None:
                kinds.append('fixed')
            elif a['default'] is not None:
                kinds.append('default')
            else:
                kinds.append('plain')
        res.violation(f'decoded-attribute-keys:{"missing" if missing else "extra"}:{"+".join(sorted(set(kinds)))}:use_defaults={use_defaults}:fill_missing={fill_missing}',
                      dict(case, version=version, use_defaults=use_defaults, fill_missing=fill_missing),
                      f'{version}: keys {sorted(got)} expected {sorted(want)} doc {doc[60:200]}')
    else:
        res.count('data:agree')
    # an absent attribute filled from its value constraint must carry that constraint's value (the use's own one
    # when the use and the referenced declaration both have one)
    for key, a in m.items():
        if key in aset or key not in values:
            continue
        lexical = a['fixed'] if a['fixed'] is not None else (a['default'] if use_defaults else None)
        if lexical is None:
            continue
        res.count('data:filled_value_compared')
        v = values[key]
        if a['type'] == 'ib' and not isinstance(v, str):
            v = ('b', v) if isinstance(v, bool) else ('i', v)
        same = str(v) == lexical if a['type'] in ('date', 'string') else \
            (v == value_of(a['type'], lexical) if not isinstance(v, str) else value_of(a['type'], v) == value_of(a['type'], lexical))
        if not same:
            origin = 'fixed' if a['fixed'] is not None else 'default'
            res.violation(f'filled-attribute-value:{origin}{"+inherited-default" if a.get("inherited_default") else ""}',
                          dict(case, version=version, use_defaults=use_defaults, fill_missing=fill_missing),
                          f'{version}: absent attribute {key} decoded as {v!r}, its {origin} is {lexical!r}; doc {doc[60:200]}')


def finalize(res, tier):
    c = res.counters
    reasons = []
    if c.get('verdict:agree', 0) < 1000:
        reasons.append('fewer than 1000 verdicts compared')
    if not c.get('data:agree'):
        reasons.append('decoded data never compared')
    total = c.get('verdict:agree', 0) + 1
    if c.get('disputed_by_arbiter', 0) > 0.02 * total:
        reasons.append('disputed fraction above 2%: the reference needs repair')
    return {'inconclusive': reasons}


def replay(case):
    xmlschema = env.activate_repo()
    from lxml import etree
    scratch = tempfile.mkdtemp(prefix='c03-')
    with open(os.path.join(scratch, 'imp.xsd'), 'w') as f:
        f.write(IMP_XSD)
    p = os.path.join(scratch, 'main.xsd')
    with open(p, 'w') as f:
        f.write(case['schema'])
    cls = xmlschema.XMLSchema11 if case.get('version') == '1.1' else xmlschema.XMLSchema10
    s = cls(p)
    print(case['schema'])
    print(case['doc'])
    errs = [e.reason for e in s.iter_errors(case['doc'])]
    print('library errors', errs)
    try:
        print('libxml2 valid', etree.XMLSchema(etree.parse(p)).validate(etree.fromstring(case['doc'].encode())))
    except etree.XMLSchemaParseError as e:
        print('libxml2 refuses schema', e)
    if 'use_defaults' in case:
        print(s.decode(case['doc'], use_defaults=case['use_defaults'], fill_missing=case['fill_missing']))
    return True
