"""C04 - all validation entry points, modes and source kinds agree on one verdict."""
import io
import os
import shutil
import subprocess
import sys
import tempfile

from vk import env
from vk.gen import docs as D
from vk.paths import eval_path, index_paths

PROPERTY = 'C04'
LEVEL = 'exploration'
RULE = ('documents: generated documents of four schema families (shop, tree with an inheritable attribute in 1.1, ctx, fx) and their single-node / identity faults (all fault '
        'classes), corpus instances; for each document every route {schema.is_valid, iter_errors, validate, decode strict, '
        'decode lax, decode skip, to_objects, XsdElement component methods, package-level is_valid / iter_errors / validate / '
        'to_dict, XmlDocument} x source kind {path, file URL, str, bytes, text file, binary file, StringIO, BytesIO, '
        'non-seekable stream, ElementTree element / tree, lxml tree, XMLResource} is executed and all outcomes are compared '
        'pairwise; the xmlschema-validate command is run as a real subprocess on documents with 0, 1, 3, 255, 256, 257 and '
        '512 errors; an option dimension (use_defaults=False given to every entry point); a hints scenario (package-level functions with '
        'their default use of xsi:schemaLocation hints and a schema instance that covers the root namespace by import); a case = (document, route, source kind); distinct non-trivial = distinct (family, fault kind, route, '
        'source kind) combinations on invalid documents plus distinct CLI error counts')
RULE += (' ' + 'Sources include a lazy XMLResource (verdict and multiset of error reasons) and family flat: one document per shard with hundreds of leaf records under a key / keyref, damaged at its end.')
ASSUMPTIONS = [
    'errors are identified by (reason, index path of the element), not by object identity or message formatting',
    'package-level functions are called with use_location_hints=False and an explicit schema, as the schema methods default to',
    'ElementTree element sources are only used for documents without prefix-dependent QName values (xsi:type)',
    'decoded data is compared with repr() after JSON-like normalisation (Decimal/float kept distinct)',
]
ANCHORS = {
    'xmlschema/validators/validation.py': [(216, 236), (472, 650)],
    'xmlschema/validators/schemas.py': [(1214, 1391), (1439, 1637)],
    'xmlschema/documents.py': [(45, 330)],
    'xmlschema/cli.py': [(234, 279)],
    'xmlschema/settings.py': [(208, 229)],
}
SHARD_TIMEOUT = {'quick': 600, 'thorough': 3600}
LEVEL_TEXT = ('Differential runtime monitoring: one document is pushed through every public validation / decoding entry point '
              'and source kind of the real library (including the command line tool as a subprocess) and the recorded outcomes '
              '(verdict, first error, error list, decoded data, exit status) must agree.')
LEVEL_NOTE = ('Trusted: the outcome normaliser, the fault injector. No external oracle is needed: any disagreement between two '
              'routes is a violation whichever is right.')
TECHNIQUE = 'runtime monitoring: differential oracle over recorded outcomes of all entry points / source kinds / CLI exit status'


def plan(tier, seed):
    ndocs = 128 if tier == 'quick' else 1600
    shards = 16 if tier == 'quick' else 40
    specs = [{'kind': 'gen', 'docs': ndocs // shards, 'gshard': s} for s in range(shards)]
    specs.append({'kind': 'corpus'})
    specs.append({'kind': 'hints'})
    specs.append({'kind': 'laxwrap', 'docs': 12 if tier == 'quick' else 120})
    counts = [0, 1, 3, 255, 256, 257, 512] if tier == 'quick' else [0, 1, 2, 3, 100, 254, 255, 256, 257, 300, 511, 512, 513, 768, 1024]
    for i in range(0, len(counts), 2):
        specs.append({'kind': 'cli', 'counts': counts[i:i + 2], 'no_cov': True})
    return specs


class NonSeekable(io.RawIOBase):
    def __init__(self, data):
        self._b = io.BytesIO(data)

    def readable(self):
        return True

    def seekable(self):
        return False

    def readinto(self, b):
        return self._b.readinto(b)


def err_key(e, root_cache):
    ip = None
    root = e.root
    if root is not None and e.path:
        try:
            sel = eval_path(root, e.path, e.namespaces or {})
        except (KeyError, ValueError):
            sel = []
        if len(sel) == 1:
            ip = index_paths(root).get(id(sel[0]))
    return (e.reason, ip)


def norm(data):
    return data


def expand_keys(data, nsmap):
    """Decoded data with element/attribute keys in expanded-name form and xmlns entries dropped."""
    if isinstance(data, dict):
        out = {}
        for k, v in data.items():
            if isinstance(k, str):
                if k.startswith('@xmlns'):
                    continue
                at = k.startswith('@')
                name = k[1:] if at else k
                if name and name[0] not in '{$#' and ':' in name:
                    p, ln = name.split(':', 1)
                    if p in nsmap:
                        name = '{%s}%s' % (nsmap[p], ln)
                elif name and name[0] not in '{$#' and not at and nsmap.get(''):
                    name = '{%s}%s' % (nsmap[''], name)
                k = ('@' if at else '') + name
            out[k] = expand_keys(v, nsmap)
        return out
    if isinstance(data, list):
        return [expand_keys(x, nsmap) for x in data]
    return data


def same_data(a, b, nsmap, loose):
    if loose:
        return repr(expand_keys(a, nsmap)) == repr(expand_keys(b, nsmap))
    return repr(a) == repr(b)


def sources(text, scratch, has_qname_values, lxml_etree, ET, xmlschema):
    """name -> zero-argument factory of a fresh source object."""
    data = text.encode('utf-8')
    path = os.path.join(scratch, 'doc.xml')
    with open(path, 'wb') as f:
        f.write(data)
    out = {
        'path': lambda: path,
        'file_url': lambda: 'file://' + path,
        'str': lambda: text,
        'bytes': lambda: data,
        'text_file': lambda: open(path, encoding='utf-8'),
        'binary_file': lambda: open(path, 'rb'),
        'StringIO': lambda: io.StringIO(text),
        'BytesIO': lambda: io.BytesIO(data),
        'nonseekable': lambda: NonSeekable(data),
        'lxml_tree': lambda: lxml_etree.fromstring(data),
        'XMLResource': lambda: xmlschema.XMLResource(text),
        'lxml_commented': lambda: commented(lxml_etree.fromstring(data), lxml_etree),
        'XMLResource_lazy': lambda: xmlschema.XMLResource(data, lazy=True),
    }
    if not has_qname_values:
        out['et_element'] = lambda: ET.fromstring(text)
        out['et_tree'] = lambda: ET.ElementTree(ET.fromstring(text))
    return out


def commented(root, lxml_etree):
    """The same document with comments and processing instructions (kept by lxml trees) where they change nothing: after
    the text of leaf elements, before it (the text becomes the comment's tail) and between the children."""
    for k, e in enumerate(list(root.iter())):
        if not isinstance(e.tag, str):
            continue
        if e.tag.startswith('{%s}' % D.EXT) or e.tag.endswith(('}mx', '}comment')):
            continue     # any / mixed content: see the probe in run_hints (listed finding)
        if len(e) == 0 and e.text and e.text.strip():
            if k % 3 == 0:
                e.append(lxml_etree.Comment(' after '))
            elif k % 3 == 1:
                c = lxml_etree.Comment(' before ')
                c.tail = e.text
                e.text = None
                e.insert(0, c)
        elif len(e) and k % 2 == 0 and not (e.text and e.text.strip()):
            pi = lxml_etree.ProcessingInstruction('vk', 'between')
            pi.tail = e[0].tail
            e[0].tail = None
            e.insert(1, pi)
    return root


def close(src):
    if hasattr(src, 'close') and not isinstance(src, (str, bytes)):
        try:
            src.close()
        except Exception:
            pass


def observe(xmlschema, schema, make, route, opts=None):
    """Outcome of one route on one fresh source: dict(valid, first, errors, data)."""
    src = make()
    opts = opts or {}
    try:
        if route == 'is_valid':
            return {'valid': schema.is_valid(src, **opts)}
        if route == 'iter_errors':
            errs = [err_key(e, None) for e in schema.iter_errors(src, **opts)]
            return {'valid': not errs, 'errors': errs, 'first': errs[0] if errs else None}
        if route == 'validate':
            try:
                schema.validate(src, **opts)
                return {'valid': True}
            except xmlschema.XMLSchemaValidationError as e:
                return {'valid': False, 'first': err_key(e, None)}
        if route == 'decode_strict':
            try:
                return {'valid': True, 'data': norm(schema.decode(src, **opts))}
            except xmlschema.XMLSchemaValidationError as e:
                return {'valid': False, 'first': err_key(e, None)}
        if route == 'decode_lax':
            data, errs = schema.decode(src, validation='lax', **opts)
            errs = [err_key(e, None) for e in errs]
            return {'valid': not errs, 'errors': errs, 'first': errs[0] if errs else None, 'data_lax': norm(data)}
        if route == 'decode_skip':
            return {'data_skip': norm(schema.decode(src, validation='skip', **opts))}
        if route == 'pkg_is_valid':
            return {'valid': xmlschema.is_valid(src, schema, use_location_hints=False, **opts)}
        if route == 'pkg_iter_errors':
            errs = [err_key(e, None) for e in xmlschema.iter_errors(src, schema, use_location_hints=False, **opts)]
            return {'valid': not errs, 'errors': errs, 'first': errs[0] if errs else None}
        if route == 'pkg_validate':
            try:
                xmlschema.validate(src, schema, use_location_hints=False, **opts)
                return {'valid': True}
            except xmlschema.XMLSchemaValidationError as e:
                return {'valid': False, 'first': err_key(e, None)}
        if route == 'pkg_to_dict':
            try:
                return {'valid': True, 'data': norm(xmlschema.to_dict(src, schema, use_location_hints=False, **opts))}
            except xmlschema.XMLSchemaValidationError as e:
                return {'valid': False, 'first': err_key(e, None)}
        if route == 'xml_document':
            try:
                doc = xmlschema.XmlDocument(src, schema=schema, use_location_hints=False)
                return {'valid': True, 'data': norm(doc.decode())}
            except xmlschema.XMLSchemaValidationError as e:
                return {'valid': False, 'first': err_key(e, None)}
        if route == 'xml_document_lax':
            doc = xmlschema.XmlDocument(src, schema=schema, validation='lax', use_location_hints=False)
            errs = [err_key(e, None) for e in doc.errors]
            return {'valid': not errs, 'errors': errs, 'first': errs[0] if errs else None}
        if route == 'component':
            res = xmlschema.XMLResource(src) if not isinstance(src, xmlschema.XMLResource) else src
            xsd_element = schema.maps.elements[res.root.tag]
            errs = [err_key(e, None) for e in xsd_element.iter_errors(res.root, namespaces=res.get_namespaces(root_only=True))]
            return {'component_valid': not errs}
        raise ValueError(route)
    finally:
        close(src)


def reason_class(reason):
    import re
    r = re.sub(r"'[^']*'", '?', reason or '')
    r = re.sub(r'\[[^\]]*\]', '?', r)
    r = re.sub(r'\d+', 'N', r)
    return r[:70]


def first_error_mechanism(route, strict, lax):
    if strict is None:
        return f'first-error-missing:{route}'
    if strict[0].startswith("invalid value '") and strict[1] == lax[1] and not lax[0].startswith('invalid value'):
        return 'strict-union-raises-generic-invalid-value'
    return f'strict-raises-other-than-first-lax-error: strict="{reason_class(strict[0])}" lax="{reason_class(lax[0])}"'


ROUTES = ('is_valid', 'iter_errors', 'validate', 'decode_strict', 'decode_lax', 'decode_skip', 'pkg_is_valid',
          'pkg_iter_errors', 'pkg_validate', 'pkg_to_dict', 'xml_document', 'xml_document_lax')


def compare_document(res, xmlschema, schema, text, label, case, has_qname_values, scratch, rng, tier, tag, opts=None):
    from lxml import etree as lxml_etree
    import xml.etree.ElementTree as ET
    import re
    nsmap = {p: u for p, u in re.findall(r'xmlns:?([\w.-]*)="([^"]*)"', text.split('>', 2)[1] if text.startswith('<?xml') else text.split('>', 1)[0])}
    srcs = sources(text, scratch, has_qname_values, lxml_etree, ET, xmlschema)
    base = observe(xmlschema, schema, srcs['str'], 'iter_errors', opts)
    ref_valid, ref_errors, ref_first = base['valid'], base['errors'], base['first']
    if not opts:
        # a validation hook that names the mode already in use for every element changes nothing
        hooked = [err_key(e, None) for e in schema.iter_errors(srcs['str'](), validation_hook=lambda elem, xsd_element: 'lax')]
        res.count('validation_hook_transparency:compared')
        if sorted(hooked, key=repr) != sorted(ref_errors, key=repr):
            res.violation('validation-hook-naming-the-current-mode-changes-the-errors', dict(case, route='iter_errors+hook'),
                          f'{label}: with the hook {hooked[:3]} without {ref_errors[:3]}')
    ref_data = None
    if ref_valid:
        ref_data = observe(xmlschema, schema, srcs['str'], 'decode_strict', opts).get('data')
    kinds = list(srcs)
    combos = [(r, k) for r in ROUTES for k in kinds if not (r.startswith('xml_document') and k.startswith('XMLResource'))]
    # a lazy resource: the validation-only entry points (what lazy decoding returns is the matter of C06)
    combos = [(r, k) for r, k in combos if k != 'XMLResource_lazy' or r in ('is_valid', 'iter_errors', 'validate', 'pkg_is_valid',
                                                                           'pkg_iter_errors', 'pkg_validate')]
    if opts:
        # the option is passed to every entry point that takes it (XmlDocument validates at construction, without it)
        combos = [(r, k) for r, k in combos if not r.startswith('xml_document')]
        res.count('documents_with_options:' + ','.join(f'{k}={v}' for k, v in sorted(opts.items())))
        case = dict(case, options=opts)
    if tier == 'quick':
        # every route on str, every source kind on two seeded routes, plus a seeded sample of the rest
        keep = {(r, 'str') for r in ROUTES} | {(r, k) for k in kinds for r in rng.sample(ROUTES, 2)}
        combos = [c for c in combos if c in keep]
    for route, kind in combos:
        res.case(env.h8((tag, route, kind)) if not ref_valid else None)
        res.count('route:' + route)
        res.count('source:' + kind)
        try:
            out = observe(xmlschema, schema, srcs[kind], route, opts)
        except xmlschema.XMLSchemaException as e:
            res.violation(f'route-raised:{route}:{type(e).__name__}', dict(case, route=route, source=kind),
                          f'{label}: {route} on {kind} raised {e!r}'[:400])
            continue
        if 'valid' in out and out['valid'] != ref_valid:
            mech = f'verdict-differs:{route}'
            if kind == 'XMLResource_lazy' and case.get('fault_below_undeclared_chunk') and out['valid']:
                # listed: a streamed chunk without a declaration is skipped, declared descendants included
                mech = 'verdict-differs:lazy-resource-skips-undeclared-chunk-admitted-by-a-lax-wildcard'
            res.violation(mech, dict(case, route=route, source=kind),
                          f'{label}: {route} on {kind} says valid={out["valid"]}, iter_errors on str says {ref_valid} ({ref_first})')
            continue
        loose = kind.startswith('et_')   # a bare ElementTree element carries no prefix declarations
        if kind == 'XMLResource_lazy':
            # errors of a lazy resource carry no element: compare the reasons
            # (and a lazy run reports the errors of the root's attributes after those of its children: the order is the
            # matter of C06; here the same multiset of reasons, and the first error raised must be one of them)
            unloc = lambda k: None if k is None else (k[0], None)
            ref_errors_c = sorted(unloc(k) for k in ref_errors)
            if 'errors' in out:
                out['errors'] = sorted(unloc(k) for k in out['errors'])
            if 'first' in out:
                out['first'] = unloc(out['first'])
                ref_first_c = out['first'] if out['first'] in ref_errors_c else unloc(ref_first)
            else:
                ref_first_c = unloc(ref_first)
        elif kind == 'lxml_commented':
            # the child position quoted in a message counts comments and PIs too: compare on reasons without it
            import re as _re
            unpos = lambda k: None if k is None else (_re.sub(r'position \d+', 'position N', k[0]), k[1])
            if 'first' in out:
                out['first'] = unpos(out['first'])
            if 'errors' in out:
                out['errors'] = [unpos(k) for k in out['errors']]
            if (unpos(ref_first), [unpos(k) for k in ref_errors]) != (ref_first, ref_errors):
                ref_first_c, ref_errors_c = unpos(ref_first), [unpos(k) for k in ref_errors]
            else:
                ref_first_c, ref_errors_c = ref_first, ref_errors
        else:
            ref_first_c, ref_errors_c = ref_first, ref_errors
        if not ref_valid and 'first' in out and out['first'] != ref_first_c:
            a, b = out['first'], ref_first_c
            same_place = a is not None and (a[1] == b[1] or a[1] is None or b[1] is None)
            if not (loose and same_place):
                res.violation(first_error_mechanism(route, a, b), dict(case, route=route, source=kind),
                              f'{label}: {route} on {kind} first error {a} but lax collects first {b}')
                continue
        if 'errors' in out and out['errors'] != ref_errors_c:
            if not (loose and [e[1] for e in out['errors']] == [e[1] for e in ref_errors_c]):
                res.violation(f'error-list-differs:{route}', dict(case, route=route, source=kind),
                              f'{label}: {route} on {kind} errors {out["errors"][:3]} vs {ref_errors_c[:3]}')
                continue
        if ref_valid and 'data' in out and not same_data(out['data'], ref_data, nsmap, loose):
            res.violation(f'data-differs:{route}', dict(case, route=route, source=kind),
                          f'{label}: {route} on {kind} data {repr(out["data"])[:160]} vs {repr(ref_data)[:160]}')
            continue
        if ref_valid and 'data_lax' in out and not same_data(out['data_lax'], ref_data, nsmap, loose):
            res.violation('data-differs:decode_lax', dict(case, route=route, source=kind),
                          f'{label}: lax data {repr(out["data_lax"])[:160]} vs strict {repr(ref_data)[:160]}')
            continue
        if ref_valid and 'data_skip' in out and not same_data(out['data_skip'], ref_data, nsmap, loose):
            res.count('skip_mode_data_differs_from_strict')   # reported only: skip mode does not promise typed values
        res.count('agree:' + ('valid' if ref_valid else 'invalid'))
    return ref_valid, len(ref_errors)


def run_gen(spec, res):
    xmlschema = env.activate_repo()
    schemas = {}
    families = dict(D.FAMILIES, fx=D.EXTRA_FAMILIES['fx'])
    for fam in families:
        for v, cls in (('1.0', xmlschema.XMLSchema10), ('1.1', xmlschema.XMLSchema11)):
            schemas[fam, v] = cls(D.family_xsd(fam, v))
    rng = env.rng_for(PROPERTY, spec['tier'], spec['seed'], spec['gshard'])
    scratch = tempfile.mkdtemp(prefix='c04-')
    for d in range(spec['docs']):
        fam = rng.choice(('shop', 'shop', 'tree', 'ctx', 'fx'))
        doc = D.GENERATORS[fam](rng)
        if d == 1:
            # one long document of leaf records with a key / keyref on the root (a lazy resource reads it in several steps)
            fam = 'flat'
            if (fam, '1.0') not in schemas:
                for v, cls in (('1.0', xmlschema.XMLSchema10), ('1.1', xmlschema.XMLSchema11)):
                    schemas[fam, v] = cls(D.family_xsd(fam, v))
            doc = D.gen_flat(rng, rng.choice((None, 'dup_key_late', 'dangling_keyref_late')), rng.randint(700, 1200))
        version = rng.choice(('1.0', '1.1'))
        schema = schemas[fam, version]
        prefixes = D.default_prefixes(fam, rng)
        variants = [(doc, 'valid')]
        faults = [(p, k) for p, n in doc.walk() for k in D.faults_at(doc, p)]
        rng.shuffle(faults)
        for p, k in faults[:2 if spec['tier'] == 'quick' else 4]:
            r = D.apply_fault(doc, p, k, rng)
            if r:
                variants.append((r[0], k))
        idk = rng.choice(D.IDENTITY_FAULTS)
        r = D.identity_fault(doc, fam, idk, rng)
        if r:
            variants.append((r[0], idk))
        for tree, fault in variants:
            text = D.render_doc(tree, fam, prefixes=prefixes)
            has_q = any(n.meta.get('xsi_type') for _, n in tree.walk()) or 'xsi:type' in text
            case = {'family': fam, 'version': version, 'doc': text, 'fault': fault}
            compare_document(res, xmlschema, schema, text, f'{fam}/{fault}', case, has_q, scratch, rng, spec['tier'], (fam, fault))
            if fam == 'fx' or rng.random() < 0.25:
                # the same comparison with a non-default option given to every entry point
                compare_document(res, xmlschema, schema, text, f'{fam}/{fault}/use_defaults=False', case, has_q, scratch, rng,
                                 spec['tier'], (fam, fault, 'nodefaults'), {'use_defaults': False})
            if len(res.samples) < 2:
                res.sample({'family': fam, 'fault': fault, 'version': version, 'doc_chars': len(text)})


def run_laxwrap(spec, res):
    """Declared elements below undeclared wrappers that a lax wildcard admits (generator of C19's shard laxwrap): the routes
    that only validate and the routes that build data walk such a subtree through different code."""
    import copy
    from checks.c19_error_location import LAXWRAP_XSD, laxwrap_tree, laxwrap_render
    xmlschema = env.activate_repo()
    rng = env.rng_for(PROPERTY, spec['tier'], spec['seed'], 'laxwrap')
    scratch = tempfile.mkdtemp(prefix='c04-')
    for version, cls in (('1.0', xmlschema.XMLSchema10), ('1.1', xmlschema.XMLSchema11)):
        schema = cls(LAXWRAP_XSD)
        for d in range(spec['docs']):
            root = ['root', {}, None, [['head', {}, 'h', []]] + [laxwrap_tree(rng) for _ in range(rng.randint(1, 3))]]
            variants = [(root, 'valid')]
            declared = []

            def walk(n):
                for c in n[3]:
                    if c[0] in ('qty', 'flag'):
                        declared.append(c)
                    walk(c)
            damaged = copy.deepcopy(root)
            walk(damaged)
            below = False
            if declared:
                node = rng.choice(declared)
                node[2] = 'two'
                # is the damaged node inside a depth-1 element that has no declaration (a chunk of a lazy resource)?
                below = not any(c is node for c in damaged[3])
                variants.append((damaged, 'bad_value'))
            for tree, fault in variants:
                text = laxwrap_render(tree)
                case = {'family': 'laxwrap', 'version': version, 'doc': text, 'fault': fault}
                if fault != 'valid' and below:
                    case['fault_below_undeclared_chunk'] = True
                res.count('laxwrap:documents:' + fault)
                compare_document(res, xmlschema, schema, text, f'laxwrap/{fault}', case, False, scratch, rng, spec['tier'], ('laxwrap', fault))


def run_corpus(spec, res):
    xmlschema = env.activate_repo()
    from vk.gen import corpus as C
    rng = env.rng_for(PROPERTY, spec['tier'], spec['seed'], 'corpus')
    scratch = tempfile.mkdtemp(prefix='c04-')
    for entry in C.instances():
        schema = C.schema_for(entry)
        if schema is None or os.path.getsize(entry['xml']) > 300000:
            continue
        with open(entry['xml'], 'rb') as f:
            raw = f.read()
        try:
            text = raw.decode('utf-8')
        except UnicodeDecodeError:
            continue
        if text.lstrip().startswith('<?xml') and 'encoding' in text.split('?>')[0] and 'utf-8' not in text.split('?>')[0].lower():
            continue
        # location hints relative to the file would resolve differently for in-memory sources
        if 'schemaLocation' in text and entry['locations']:
            continue
        case = {'corpus': os.path.relpath(entry['xml'], env.VERIF_REPO), 'version': entry['version']}
        try:
            compare_document(res, xmlschema, schema, text, case['corpus'], case, True, scratch, rng, spec['tier'],
                             ('corpus', entry['xml']))
        except xmlschema.XMLSchemaException as e:
            res.count('corpus:baseline_raised:' + type(e).__name__)
        res.count('corpus:documents')


# ---------------------------------------------------------------------------------------------
CLI_XSD = f'''<xs:schema xmlns:xs="{D.XS}">
  <xs:element name="r"><xs:complexType><xs:sequence>
    <xs:element name="v" type="xs:int" minOccurs="0" maxOccurs="unbounded"/>
  </xs:sequence></xs:complexType></xs:element>
</xs:schema>'''


def run_hints(spec, res):
    """Package-level functions with their default use of location hints: a schema *instance* given by the caller that
    covers the namespace of the document root (as target namespace or through an import) is the schema that is used,
    whatever schemaLocation hints the document carries."""
    xmlschema = env.activate_repo()
    d = tempfile.mkdtemp(prefix='c04h-')
    files = {
        'main.xsd': f'<xs:schema xmlns:xs="{D.XS}" targetNamespace="urn:h:main" xmlns:p="urn:h:part">'
                    f'<xs:import namespace="urn:h:part" schemaLocation="part.xsd"/>'
                    f'<xs:element name="top"><xs:complexType><xs:sequence><xs:element ref="p:item" maxOccurs="unbounded"/>'
                    f'</xs:sequence></xs:complexType></xs:element></xs:schema>',
        'part.xsd': f'<xs:schema xmlns:xs="{D.XS}" targetNamespace="urn:h:part"><xs:element name="item" type="xs:positiveInteger"/></xs:schema>',
        # what the hints of the documents point at: same names, looser types
        'loose_part.xsd': f'<xs:schema xmlns:xs="{D.XS}" targetNamespace="urn:h:part"><xs:element name="item" type="xs:string"/></xs:schema>',
        'loose_main.xsd': f'<xs:schema xmlns:xs="{D.XS}" targetNamespace="urn:h:main"><xs:element name="top"/></xs:schema>',
    }
    for name, text in files.items():
        with open(os.path.join(d, name), 'w') as f:
            f.write(text)
    XSI = 'xmlns:xsi="http://www.w3.org/2001/XMLSchema-instance"'
    docs = {}
    for hint_name, hint in (('no-hint', ''), ('hint-to-looser-schema', f' {XSI} xsi:schemaLocation="urn:h:part loose_part.xsd urn:h:main loose_main.xsd"'),
                            ('hint-to-missing-file', f' {XSI} xsi:schemaLocation="urn:h:part nowhere.xsd"')):
        for val in ('7', 'abc', '0'):
            docs[f'imported-root/{hint_name}/{val}'] = f'<p:item xmlns:p="urn:h:part"{hint}>{val}</p:item>'
            docs[f'target-root/{hint_name}/{val}'] = (f'<m:top xmlns:m="urn:h:main" xmlns:p="urn:h:part"{hint}><p:item>{val}</p:item>'
                                                      f'<p:item>1</p:item></m:top>')
    for version, cls in (('1.0', xmlschema.XMLSchema10), ('1.1', xmlschema.XMLSchema11)):
        schema = cls(os.path.join(d, 'main.xsd'))
        for label, text in docs.items():
            path = os.path.join(d, 'doc.xml')
            with open(path, 'w') as f:
                f.write(text)
            ref = [err_key(e, None) for e in schema.iter_errors(path)]
            case = {'scenario': 'hints', 'version': version, 'doc': text, 'label': label, 'files': files}
            for route, call in (
                    ('pkg_is_valid', lambda: xmlschema.is_valid(path, schema)),
                    ('pkg_iter_errors', lambda: not list(xmlschema.iter_errors(path, schema))),
                    ('pkg_validate', lambda: xmlschema.validate(path, schema) is None),
                    ('pkg_to_dict_lax', lambda: not xmlschema.to_dict(path, schema, validation='lax')[1]),
                    ('xml_document_lax', lambda: not xmlschema.XmlDocument(path, schema=schema, validation='lax').errors)):
                res.evaluations += 1
                res.nontrivial.add(env.h8(('hints', version, label, route)))
                res.count('hints:' + route)
                try:
                    valid = bool(call())
                except xmlschema.XMLSchemaValidationError:
                    valid = False
                except xmlschema.XMLSchemaException as e:
                    res.violation(f'route-raised:{route}:{type(e).__name__}', dict(case, route=route), f'hints {label}: {e!r}'[:300])
                    continue
                if valid != (not ref):
                    res.violation(f'verdict-differs:{route}', dict(case, route=route),
                                  f'hints/{label} ({version}): {route} with the schema instance says valid={valid}, '
                                  f'schema.iter_errors says {ref[:2]}')
                else:
                    res.count('agree:' + ('valid' if valid else 'invalid'))
    shutil.rmtree(d, ignore_errors=True)
    # a tree that keeps comments (lxml) with a comment inside a mixed content: the decoded data must not depend on it
    from lxml import etree as lxml_etree
    mixed_xsd = (f'<xs:schema xmlns:xs="{D.XS}"><xs:element name="m"><xs:complexType mixed="true"><xs:sequence>'
                 f'<xs:element name="b" minOccurs="0" maxOccurs="unbounded"/></xs:sequence></xs:complexType></xs:element></xs:schema>')
    for version, cls in (('1.0', xmlschema.XMLSchema10), ('1.1', xmlschema.XMLSchema11)):
        schema = cls(mixed_xsd)
        for doc in ('<m>x<!-- c -->y</m>', '<m>x<b/>t<?p?>u</m>', '<m><!-- c -->only</m>'):
            res.evaluations += 1
            res.count('hints:mixed_content_with_comment')
            a = schema.decode(doc, validation='lax')
            b = schema.decode(lxml_etree.fromstring(doc), validation='lax')
            if repr(a[0]) != repr(b[0]) or len(a[1]) != len(b[1]):
                res.violation('data-differs:lxml-tree-with-comment-in-mixed-content',
                              {'scenario': 'hints', 'version': version, 'doc': doc, 'schema': mixed_xsd},
                              f'{doc}: text source {a[0]!r}, lxml tree {b[0]!r}')
            else:
                res.count('agree:valid')


def run_cli(spec, res):
    """The validate command as a real subprocess on documents with exactly n errors."""
    xmlschema = env.activate_repo()
    scratch = tempfile.mkdtemp(prefix='c04cli-')
    xsd = os.path.join(scratch, 's.xsd')
    with open(xsd, 'w') as f:
        f.write(CLI_XSD)
    schema = xmlschema.XMLSchema10(xsd)
    for n in spec['counts']:
        xml = os.path.join(scratch, f'd{n}.xml')
        with open(xml, 'w') as f:
            f.write('<r>' + '<v>x</v>' * n + '<v>1</v></r>')
        lib_errors = len(list(schema.iter_errors(xml)))
        code = ('import sys; sys.path.insert(0, %r); sys.argv = ["xmlschema-validate", "--schema", %r, %r]; '
                'from xmlschema.cli import validate; validate()' % (env.VERIF_REPO, xsd, xml))
        p = subprocess.run([env.PYTHON, '-c', code], stdout=subprocess.PIPE, stderr=subprocess.PIPE, timeout=300)
        res.case(env.h8(('cli', n)))
        res.count('cli:runs')
        res.add_to_set('cli_statuses', str(p.returncode))
        case = {'cli_errors': n}
        if lib_errors != n:
            res.inconclusive_case('cli fixture has unexpected error count', [n, lib_errors])
            continue
        if (p.returncode == 0) != (n == 0):
            res.violation('cli-exit-status-disagrees-with-verdict', case,
                          f'document with {n} errors: xmlschema-validate exits with status {p.returncode}; stderr {p.stderr[-120:]!r}')
        else:
            res.count('cli:agree')
        res.sample({'cli_errors': n, 'exit_status': p.returncode})


def run_shard(spec, res):
    {'gen': run_gen, 'corpus': run_corpus, 'cli': run_cli, 'hints': run_hints, 'laxwrap': run_laxwrap}[spec['kind']](spec, res)


def finalize(res, tier):
    c = res.counters
    reasons = []
    if not c.get('agree:valid') or not c.get('agree:invalid'):
        reasons.append('no agreement tally on valid or on invalid documents')
    if not c.get('cli:runs'):
        reasons.append('the command line tool was never run')
    for r in ROUTES:
        if not c.get('route:' + r):
            reasons.append(f'route {r} never exercised')
    return {'inconclusive': reasons}


def replay(case):
    xmlschema = env.activate_repo()
    from vk.result import Result
    import random
    res = Result()
    if case.get('scenario') == 'hints':
        run_hints({}, res)
    elif 'cli_errors' in case:
        run_cli({'counts': [case['cli_errors']]}, res)
    elif 'corpus' in case:
        run_corpus({'tier': 'thorough', 'seed': 0}, res)
    else:
        cls = xmlschema.XMLSchema10 if case['version'] == '1.0' else xmlschema.XMLSchema11
        if case['family'] == 'laxwrap':
            from checks.c19_error_location import LAXWRAP_XSD
            schema = cls(LAXWRAP_XSD)
        else:
            schema = cls(D.family_xsd(case['family'], case['version']))
        compare_document(res, xmlschema, schema, case['doc'], 'replay', case, 'xsi:type' in case['doc'],
                         tempfile.mkdtemp(prefix='c04-'), random.Random(0), 'thorough', ('replay',), case.get('options'))
    for v in res.violations:
        print(v['mechanism'], v['detail'][:400])
    return bool(res.violations)
