"""C05 - decoded data re-encodes to a valid, equivalent document; strict encode is sound."""
import copy
import os
import re
import traceback
from xml.etree import ElementTree as ET

from vk import env
from vk.gen import docs as D
from vk.paths import clean_reason

PROPERTY = 'C05'
LEVEL = 'exploration'
RULE = ('generated valid documents of six schema families, one in four written with the default namespace re-bound along the path (nested complex types, attributes with defaults / fixed, simple '
        'content, mixed content, lists, unions, qualified names, lax wildcards, xsi:type, nil) x converters {JsonML, data '
        'elements (to_objects), default, BadgerFish, GData - the last three only where same-named children are contiguous} x '
        'options {decimal_type, datetime_types, use_defaults}: encode(decode(d)) must be valid, equal to d in element '
        'structure / attribute sets (after adding schema defaults) and must decode to the same data again; encoder soundness: '
        'decoded data mutated by dropping, duplicating, retyping (int <-> str <-> None <-> list <-> dict) and reordering '
        'entries, then encode(validation="strict") must raise a validation error or return XML the schema accepts; a case = '
        '(document, converter, options) or (document, mutation); distinct non-trivial = distinct (family, converter, options) '
        'and (family, mutation kind, key kind) combinations')
ASSUMPTIONS = [
    'attribute sets are compared after adding the schema\'s default / fixed attributes to the original (the encoder writes them)',
    'whitespace-only text of element-only content is ignored; text of mixed content is compared for JsonML and data elements only',
    'a strict encode that raises a non-validation library error is counted, not flagged; a foreign exception is flagged (neither "raises a validation error" nor "returns valid XML")',
    'the encoded tree is serialised with ElementTree and re-validated with is_valid()',
]
ANCHORS = {
    'xmlschema/validators/elements.py': [(816, 834), (937, 1082)],
    'xmlschema/validators/groups.py': [(1096, 1214)],
    'xmlschema/validators/models.py': [(819, 949)],
    'xmlschema/validators/simple_types.py': [(787, 842), (1021, 1029), (1213, 1245), (1485, 1529)],
    'xmlschema/converters/base.py': [(336, 494)],
}
SHARD_TIMEOUT = {'quick': 900, 'thorough': 3600}
LEVEL_TEXT = ('Metamorphic runtime monitoring of the real decoder / encoder pair: valid generated documents are decoded and '
              're-encoded per converter class and the result is re-validated and compared structurally with the original; '
              'mutated data is pushed through strict encoding and whatever XML comes back is re-validated by the same schema.')
LEVEL_NOTE = 'Trusted: ElementTree serialisation, the structural comparer, is_valid() of the same schema as judge of the encoder output.'
TECHNIQUE = 'runtime monitoring: metamorphic round-trip oracle + re-validation of strict-encode output over seeded data mutations'

ALL_FAMILIES = dict(D.FAMILIES, poly=D.EXTRA_FAMILIES['poly'], un=D.EXTRA_FAMILIES['un'], mixq=D.EXTRA_FAMILIES['mixq'])   # fx documents are valid or invalid by design


def plan(tier, seed):
    n = 24 if tier == 'quick' else 260
    shards = 16 if tier == 'quick' else 44
    return [{'kind': 'docs', 'docs': n, 'dshard': s} for s in range(shards)]


def shape(elem, with_text):
    kids = [c for c in elem if not callable(c.tag)]
    text = None
    if with_text and not kids:
        text = (elem.text or '').strip()
    return (elem.tag, tuple(sorted((k, v) for k, v in elem.attrib.items())), text, tuple(shape(c, with_text) for c in kids))


def shape_names(elem):
    kids = [c for c in elem if not callable(c.tag)]
    return (elem.tag, tuple(sorted(elem.attrib)), tuple(shape_names(c) for c in kids))


def add_defaults(schema, elem_root):
    """Attribute names the schema adds (fixed / default) per element of the original, via a data-element decode."""
    # decode with data elements gives, per element, the full attribute set including defaults
    obj = schema.to_objects(elem_root)
    return obj


def obj_names(o):
    kids = list(o)
    return (o.tag, tuple(sorted(unmap(k, o) for k in o.attrib)), tuple(obj_names(c) for c in kids))


def unmap(name, o):
    if name.startswith('{') or ':' not in name:
        return name
    p, ln = name.split(':', 1)
    ns = (o.nsmap or {}).get(p) if hasattr(o, 'nsmap') else None
    return '{%s}%s' % (ns, ln) if ns else name


def innermost(exc):
    tb = traceback.extract_tb(exc.__traceback__)
    for fr in reversed(tb):
        if os.sep + 'xmlschema' + os.sep in fr.filename:
            return f'{os.path.basename(fr.filename)}:{fr.name}'
    return 'outside-library'


def contiguous(tree):
    """Same-named children contiguous everywhere (dictionary converters keep no cross-name order)."""
    for _, n in tree.walk():
        seen, last = set(), None
        for c in n.children:
            key = (c.ns, c.name)
            if key != last and key in seen:
                return False
            seen.add(key)
            last = key
        if n.meta.get('mixed') and n.children:
            return False
    return True


def list_valued_union_child(schema, original, local):
    """Does the document hold an element `local` whose declared type is a union with list and non-list members and whose
    text has more than one list item?"""
    from xmlschema.validators import XsdElement
    decl = [c for c in schema.iter_components(XsdElement) if c.local_name == local and c.type is not None and c.type.is_union()
            and any(mt.is_list() for mt in c.type.member_types) and not c.type.is_list()]
    if not decl:
        return False
    return any(len((e.text or '').split()) > 1 for e in original.iter() if e.tag.rsplit('}', 1)[-1] == local)


def empty_value_of_repeatable_list_child(schema, original):
    """Does the document hold an element of a plain list type, declared repeatable, with an empty value?"""
    from xmlschema.validators import XsdElement
    names = {c.local_name for c in schema.iter_components(XsdElement)
             if c.type is not None and c.type.is_list() and (c.max_occurs is None or c.max_occurs > 1)}
    return any(not (e.text or '').strip() for e in original.iter() if e.tag.rsplit('}', 1)[-1] in names)


def normalise_reason(r):
    r = clean_reason(r or '')
    r = re.sub(r"'[^']*'", '?', r)
    r = re.sub(r'[0-9]+', 'N', r)
    return r[:70]


def serialise(elem, fam):
    """Serialise with the document's own prefix map: QName values (xsi:type='s:Company') depend on it."""
    from xmlschema.utils.etree import etree_tostring
    nsmap = {p: ns for ns, p in D.default_prefixes(fam).items()}
    nsmap['xsi'] = D.XSI
    out = etree_tostring(elem, namespaces=nsmap, xml_declaration=False)
    return out if isinstance(out, str) else out.decode('utf-8')


def revalidate(xmlschema, schema, xml):
    try:
        return [clean_reason(x.reason) for x in schema.iter_errors(xml)]
    except xmlschema.XMLSchemaException as e:
        return [f'not processable: {type(e).__name__}']


def run_shard(spec, res):
    xmlschema = env.activate_repo()
    from xmlschema import converters as C
    schemas = {}
    for fam, xsd in ALL_FAMILIES.items():
        for v, cls in (('1.0', xmlschema.XMLSchema10), ('1.1', xmlschema.XMLSchema11)):
            schemas[fam, v] = cls(xsd)
    rng = env.rng_for(PROPERTY, spec['tier'], spec['seed'], spec['dshard'])
    convs = {'jsonml': C.JsonMLConverter, 'default': None, 'badgerfish': C.BadgerFishConverter, 'gdata': C.GDataConverter,
             'unordered': C.UnorderedConverter}
    for n in range(spec['docs']):
        fam = rng.choice(list(ALL_FAMILIES))
        version = rng.choice(('1.0', '1.1'))
        schema = schemas[fam, version]
        doc = D.GENERATORS[fam](rng)
        # one document in four re-binds the default namespace wherever the element namespace changes
        # (not for shop: content admitted only by its lax wildcard does not survive a re-bound default namespace, a
        # matter of the namespace findings of C17)
        rebinding = fam != 'shop' and rng.random() < (0.6 if fam == 'mixq' else 0.25)
        text = D.render_doc(doc, fam, rebinding=rebinding)
        if rebinding:
            res.count('documents_with_rebound_default_namespace')
        if not schema.is_valid(text):
            res.inconclusive_case('generated document not valid', fam)
            continue
        original = ET.fromstring(text)
        is_contig = contiguous(doc)
        full_names = obj_names(schema.to_objects(text))     # names incl. default / fixed attributes
        base_case = {'family': fam, 'version': version, 'doc': text}
        # ---- Part A: round trips
        for cname, conv in convs.items():
            if cname in ('default', 'badgerfish', 'gdata', 'unordered') and not is_contig:
                res.count(f'roundtrip:{cname}:skipped_non_contiguous')
                continue
            opts = {}
            if rng.random() < 0.3:
                opts['decimal_type'] = str      # float is lossy by nature (9.99 -> 9.9900000000000002)
            if rng.random() < 0.3:
                opts['datetime_types'] = True
            # use_defaults=False is not combined with the data equality: the encoder legitimately writes the
            # default attributes, which the second decode then reports as present
            kw = dict(opts)
            if conv is not None:
                kw['converter'] = conv
            case = dict(base_case, converter=cname, options={k: getattr(v, '__name__', v) for k, v in opts.items()})
            res.evaluations += 1
            res.nontrivial.add(env.h8((fam, cname, str(sorted(case['options'].items())))))
            res.count('roundtrip:' + cname)
            try:
                data = schema.decode(text, **kw)
            except xmlschema.XMLSchemaException as e:
                res.violation(f'roundtrip:decode-raised:{cname}:{type(e).__name__}', case, str(e)[:200])
                continue
            ekw = {'converter': conv} if conv is not None else {}
            try:
                elem = schema.encode(data, path=original.tag, **ekw)
            except xmlschema.XMLSchemaValidationError as e:
                m = re.search(r"Unexpected child with tag '(?:[\w.-]+:)?([\w.-]+)'", e.reason or '')
                if m and cname != 'jsonml' and list_valued_union_child(schema, original, m.group(1)):
                    # a union with a list member decodes to a Python list, which the dict-shaped conventions read
                    # back as repeated elements: keyed by that cause, not by the message
                    res.violation(f'roundtrip:list-value-of-union-type-read-back-as-repeated-elements:{cname}', case,
                                  f'{fam} {cname} {case["options"]}: {clean_reason(e.reason)[:160]}')
                    continue
                if cname != 'jsonml' and 'None is not an instance of' in (e.reason or '') and \
                        empty_value_of_repeatable_list_child(schema, original):
                    # the empty value of a list type decodes to None (or [None]): among the collected values of a repeated
                    # element the dict-shaped conventions read it back as an item of a list value
                    res.violation(f'roundtrip:empty-value-of-repeatable-list-typed-element-read-back-as-list-item:{cname}', case,
                                  f'{fam} {cname} {case["options"]}: {clean_reason(e.reason)[:160]}')
                    continue
                res.violation(f'roundtrip:encode-rejects-decoded-data:{cname}:{normalise_reason(e.reason)}', case,
                              f'{fam} {cname} {case["options"]}: {clean_reason(e.reason)[:160]}')
                continue
            except xmlschema.XMLSchemaException as e:
                res.violation(f'roundtrip:encode-raised:{cname}:{type(e).__name__}', case, str(e)[:200])
                continue
            except Exception as e:
                res.violation(f'roundtrip:encode-foreign-exception:{cname}:{type(e).__name__}:{innermost(e)}', case, repr(e)[:200])
                continue
            xml = serialise(elem, fam)
            errs = revalidate(xmlschema, schema, xml)
            if errs:
                res.violation(f'roundtrip:encoded-document-invalid:{cname}:{normalise_reason(errs[0])}', case,
                              f'{fam} {cname} {case["options"]}: {errs[0][:160]}')
                continue
            back = ET.fromstring(xml)
            lossless = cname in ('jsonml',)
            if lossless:
                if shape_names(back) != full_names and shape_names(back) != shape_names(original):
                    res.violation(f'roundtrip:structure-differs:{cname}', case,
                                  f'{fam} {cname}: {str(shape_names(back))[:200]} vs {str(full_names)[:200]}')
                    continue
            else:
                if canon(shape_names(back)) != canon(full_names) and canon(shape_names(back)) != canon(shape_names(original)):
                    res.violation(f'roundtrip:structure-differs:{cname}', case,
                                  f'{fam} {cname}: {str(canon(shape_names(back)))[:200]} vs {str(canon(full_names))[:200]}')
                    continue
            try:
                data2 = schema.decode(xml, **kw)
            except xmlschema.XMLSchemaException as e:
                res.violation(f'roundtrip:second-decode-raised:{cname}', case, str(e)[:200])
                continue
            if rebinding:
                # key names follow the declarations of the document that was decoded: compare with the data of the
                # same tree written with the prefix map the re-serialisation uses
                try:
                    data_cmp = schema.decode(D.render_doc(doc, fam), **kw)
                except xmlschema.XMLSchemaException as e:
                    res.violation(f'roundtrip:decode-raised:{cname}:{type(e).__name__}', case, str(e)[:200])
                    continue
            else:
                data_cmp = data
            if strip_xmlns(data2) != strip_xmlns(data_cmp):
                res.violation(f'roundtrip:data-differs-after-second-decode:{cname}', case,
                              f'{fam} {cname} {case["options"]}: {str(strip_xmlns(data2))[:160]} vs {str(strip_xmlns(data))[:160]}')
                continue
            res.count('roundtrip:agree')
        # data elements
        res.evaluations += 1
        res.count('roundtrip:dataelements')
        try:
            obj = schema.to_objects(text)
            elem = obj.encode() if hasattr(obj, 'encode') else None
            if elem is not None:
                elem = elem[0] if isinstance(elem, tuple) else elem
                xml = serialise(elem, fam)
                errs = revalidate(xmlschema, schema, xml)
                if errs:
                    res.violation(f'roundtrip:encoded-document-invalid:dataelements:{normalise_reason(errs[0])}',
                                  dict(base_case, converter='dataelements'), errs[0][:160])
                elif shape_names(ET.fromstring(xml)) not in (full_names, shape_names(original)):
                    res.violation('roundtrip:structure-differs:dataelements', dict(base_case, converter='dataelements'),
                                  str(shape_names(ET.fromstring(xml)))[:200])
                else:
                    res.count('roundtrip:agree')
        except xmlschema.XMLSchemaException as e:
            res.violation(f'roundtrip:dataelements-raised:{type(e).__name__}', dict(base_case, converter='dataelements'), str(e)[:200])
        # ---- Part B: strict encode soundness on mutated data
        for cname in ('default', 'jsonml'):
            conv = convs[cname]
            kw = {'converter': conv} if conv is not None else {}
            data = schema.decode(text, **kw)
            for m in range(8 if spec['tier'] == 'quick' else 16):
                mutated, kind = mutate_data(copy.deepcopy(data), rng)
                if kind is None:
                    continue
                case = dict(base_case, converter=cname, mutation=kind, data=repr(mutated)[:3000])
                res.evaluations += 1
                res.nontrivial.add(env.h8((fam, cname, kind)))
                res.count('strict_encode:' + kind.split(':')[0])
                try:
                    elem = schema.encode(mutated, path=original.tag, validation='strict', **kw)
                except xmlschema.XMLSchemaValidationError:
                    res.count('strict_encode:raised_validation_error')
                    continue
                except xmlschema.XMLSchemaException as e:
                    res.count('strict_encode:raised_other_library_error:' + type(e).__name__)
                    continue
                except Exception as e:
                    res.count(f'strict_encode:foreign:{type(e).__name__}:{innermost(e)}')
                    res.violation(f'strict-encode:foreign-exception:{type(e).__name__}', case,
                                  f'{fam} {cname} {kind}: {e!r}'[:200])
                    continue
                if elem is None:
                    res.count('strict_encode:returned_none')
                    continue
                try:
                    xml = serialise(elem, fam)
                except Exception as e:
                    res.violation(f'strict-encode:returned-unserialisable-tree:{type(e).__name__}', case, repr(e)[:200])
                    continue
                errs = revalidate(xmlschema, schema, xml)
                if errs:
                    res.violation(f'strict-encode:returned-invalid-xml:{invalid_family(errs[0])}', case,
                                  f'{fam} {cname} {kind}: returned XML is invalid: {errs[0][:160]}')
                else:
                    res.count('strict_encode:returned_valid')
        if len(res.samples) < 2:
            res.sample({'family': fam, 'version': version, 'contiguous': is_contig, 'chars': len(text)})


def invalid_family(reason):
    """Family of the re-validation error of XML returned by a strict encode."""
    from vk.paths import IDENTITY_RE
    if IDENTITY_RE.search(reason):
        return 'identity-constraint-not-checked-by-encoder'
    if re.search(r"(invalid literal[^:]*: ''|invalid value '' |Invalid datetime string '' |^'' is not)", reason):
        return 'empty-value-written-for-typed-simple-content'
    if re.search(r'invalid literal|invalid value|Invalid datetime|not a boolean|must be one of|pattern|length|digits|'
                 r'less than|greater|lesser|not an instance|is not a valid', reason):
        return 'simple-value-not-validated'
    if 'has a fixed value' in reason:
        return 'fixed-value-not-checked'
    if 'character data between child elements' in reason or 'character data is not allowed' in reason:
        return 'character-data-in-element-only-content'
    if reason.startswith('not processable'):
        return 'output-not-well-formed'
    return 'other:' + normalise_reason(reason)


def canon(t):
    return (t[0], t[1], tuple(sorted(canon(c) for c in t[2])))


def strip_xmlns(d):
    if isinstance(d, dict):
        return {k: strip_xmlns(v) for k, v in d.items() if not (isinstance(k, str) and k.lstrip('@').startswith('xmlns'))}
    if isinstance(d, list):
        return [strip_xmlns(x) for x in d]
    return d


def mutate_data(data, rng):
    """One seeded mutation somewhere in nested dict / list data. Returns (data, kind)."""
    sites = []

    def walk(x, path):
        if isinstance(x, dict):
            for k in list(x):
                sites.append((path, k, 'dict'))
                walk(x[k], path + [k])
        elif isinstance(x, list):
            for i in range(len(x)):
                sites.append((path, i, 'list'))
                walk(x[i], path + [i])
    walk(data, [])
    if not sites:
        return data, None
    path, key, ctype = rng.choice(sites)
    parent = data
    for p in path:
        parent = parent[p]
    kind = rng.choice(('drop', 'duplicate', 'retype', 'retype', 'reorder', 'junk_key'))
    keykind = 'attr' if isinstance(key, str) and key.startswith('@') else ('text' if key in ('$', '#') else ('index' if isinstance(key, int) else 'child'))
    try:
        if kind == 'drop':
            del parent[key]
        elif kind == 'duplicate':
            if ctype == 'list':
                parent.insert(key, copy.deepcopy(parent[key]))
            else:
                v = parent[key]
                parent[key] = [copy.deepcopy(v), copy.deepcopy(v)] if not isinstance(v, list) else v + copy.deepcopy(v)
        elif kind == 'retype':
            new = rng.choice((None, 'text', 42, 4.5, True, [], {}, ['x'], {'a': 1}, '', [None]))
            parent[key] = new
            kind = f'retype:{type(new).__name__}'
        elif kind == 'reorder':
            if ctype == 'dict' and len(parent) > 1:
                items = list(parent.items())
                rng.shuffle(items)
                parent.clear()
                parent.update(items)
            elif ctype == 'list' and len(parent) > 1:
                rng.shuffle(parent)
            else:
                return data, None
        else:
            if ctype == 'dict':
                parent[rng.choice(('bogus', '@bogus', 's:bogus', '$', '', '@'))] = rng.choice((1, 'x', None, {}))
            else:
                parent.append({'bogus': 1})
    except (TypeError, KeyError, IndexError):
        return data, None
    return data, f'{kind}:{keykind}'


def finalize(res, tier):
    c = res.counters
    reasons = []
    if c.get('roundtrip:agree', 0) < 50:
        reasons.append('fewer than 50 agreeing round trips')
    if not c.get('strict_encode:raised_validation_error') or not c.get('strict_encode:returned_valid'):
        reasons.append('strict encode never raised a validation error or never returned valid XML')
    return {'inconclusive': reasons}


def replay(case):
    xmlschema = env.activate_repo()
    from xmlschema import converters as C
    cls = xmlschema.XMLSchema11 if case['version'] == '1.1' else xmlschema.XMLSchema10
    schema = cls(ALL_FAMILIES[case['family']])
    conv = {'jsonml': C.JsonMLConverter, 'default': None, 'badgerfish': C.BadgerFishConverter, 'gdata': C.GDataConverter,
            'unordered': C.UnorderedConverter, 'dataelements': None}[case['converter']]
    kw = {'converter': conv} if conv is not None else {}
    print(case['doc'][:2000])
    if 'data' in case:
        print('mutated data:', case['data'][:1500])
        return True
    data = schema.decode(case['doc'], **kw)
    out = schema.encode(data, path=ET.fromstring(case['doc']).tag, validation='lax', **kw)
    elem, errs = out if isinstance(out, tuple) else (out, [])
    print(ET.tostring(elem)[:2000] if elem is not None else None)
    print([e.reason for e in errs][:5], [e.reason for e in schema.iter_errors(ET.tostring(elem))][:5])
    return True
