"""C06 - lazy (streaming) processing gives the same results as full loading."""
import collections
import io
import os
import tempfile
import types

from vk import env
from vk.gen import docs as D
from vk.paths import IDENTITY_RE, clean_reason

PROPERTY = 'C06'
LEVEL = 'exploration'
RULE = ('generated documents of three schema families (varying depth / width; ID/IDREF, key/keyref/unique spanning the '
        'streamed chunks; nested unique scopes) in valid, single-fault and identity-fault variants + corpus instances; each '
        'document is processed through XMLResource(lazy=False) and XMLResource(lazy=1) (claimed) and lazy=2,3 (explored, '
        'reported, not claimed) x thin_lazy on/off x source kind {path, bytes, BytesIO} x api '
        '{is_valid, iter_errors, decode lax (materialised), iter, iter_depth, iterfind with a wildcard path / a named step / two named '
        'steps (deeper than the lazy depth), iter_errors and iter_decode with path=}; one document in eight is 25-45 KB long '
        '(several parser read buffers); a case = (document, '
        'lazy depth, thin, api); distinct non-trivial = distinct (family, fault kind, api, thin) combinations with at '
        'least two root children (several chunks)')
RULE += (' ' + 'Shard rootx: xsi:type on the root and skip wildcards decide what governs a streamed chunk (two listed findings). Shard chunkns: namespace declarations made on the streamed chunk itself and used by its xsi:type and QName values. Long documents (shop, flat) carry identity faults at their end (a part the streaming reader meets after many chunks); iterfind with a positional predicate is compared too (thin_lazy=True: listed finding).')
RULE += (' ' + 'In shard chunkns the last child of a chunk may open a namespace scope of its own.')
ASSUMPTIONS = [
    'lazy errors deliberately carry no element: errors are compared on (reason) in order, not on .elem / .path',
    'lazy decode returns generators for the streamed parts: compared after full materialisation',
    'elements yielded above the lazy depth are incomplete by design: only tag, attributes and in-scope namespaces are compared there',
    'lazy depth >= 2 is explored and reported under explored_not_claimed, never a violation (as the property says)',
    'iter() on a lazy resource yields the descendants of each streamed chunk in reverse post-order: the element multiset is claimed, the order is reported only',
    'to_objects() on a lazy resource is not supported by the library (AssertionError in DataElement.insert) and a non-seekable stream cannot be re-read for a second pass: both are outside the claim',
]
ANCHORS = {
    'xmlschema/resources/xml_loader.py': [(220, 283), (331, 361)],
    'xmlschema/resources/xml_resource.py': [(536, 724)],
    'xmlschema/validators/schemas.py': [(1326, 1391), (1407, 1437), (1571, 1613)],
}
SHARD_TIMEOUT = {'quick': 600, 'thorough': 3600}
LEVEL_TEXT = ('Differential runtime monitoring: the same bytes are validated, decoded and iterated through a lazy resource and '
              'through a fully loaded one; verdicts, ordered error lists, materialised data and element streams must be equal '
              'at lazy depth 1 for every generated and corpus document.')
LEVEL_NOTE = 'Trusted: the materialiser for lazy generators and the comparison keys. The eager run is the oracle.'
TECHNIQUE = 'runtime monitoring: differential oracle (lazy run vs eager run of the same call on the same bytes)'


def plan(tier, seed):
    ndocs = 128 if tier == 'quick' else 1536
    shards = 16 if tier == 'quick' else 48
    specs = [{'kind': 'gen', 'docs': ndocs // shards, 'gshard': s} for s in range(shards)]
    specs.append({'kind': 'corpus'})
    specs.append({'kind': 'chunkns', 'docs': 40 if tier == 'quick' else 400})
    specs.append({'kind': 'rootx', 'docs': 12 if tier == 'quick' else 120})
    return specs


class NonSeekable(io.RawIOBase):
    def __init__(self, data):
        self._b = io.BytesIO(data)

    def readable(self):
        return True

    def seekable(self):
        return False

    def readinto(self, b):
        return self._b.readinto(b)


def stream_view(data, errs, exc_type):
    """Normal form of decoded data that is comparable between eager and lazy runs at depth 1.

    Lazy decoding fills every child slot of the root with one shared generator that streams the decoded
    children in a second pass; the eager run has the children in the root mapping. Both are reduced to
    (root attributes and text entries, multiset of decoded children, sorted error reasons)."""
    errors = [clean_reason(e.reason) for e in errs]
    children = []
    seen = set()

    def pull(v):
        if isinstance(v, types.GeneratorType):
            if id(v) in seen:
                return
            seen.add(id(v))
            for it in v:
                if isinstance(it, exc_type):
                    errors.append(clean_reason(it.reason))
                else:
                    children.append(repr(it))
        elif isinstance(v, list):
            for x in v:
                pull(x)
        else:
            children.append(repr(v))

    root_part = {}
    if isinstance(data, dict):
        for k, v in data.items():
            if isinstance(k, str) and (k.startswith('@') or k.startswith('$') or k.startswith('#')):
                root_part[k] = repr(v)
            else:
                pull(v)
    else:
        root_part['value'] = repr(data)
    return (sorted(root_part.items()), sorted(children), sorted(errors))


def obj_sig(o):
    kids = list(o)
    return (o.tag, tuple(sorted((k, repr(v)) for k, v in o.attrib.items())), repr(o.value) if not kids else None,
            tuple(obj_sig(c) for c in kids))


def observe(xmlschema, schema, make_resource, api, depth):
    r = make_resource()
    E = xmlschema.XMLSchemaValidationError
    if api == 'is_valid':
        return schema.is_valid(r)
    if api == 'iter_errors':
        return [clean_reason(e.reason) for e in schema.iter_errors(r)]
    if api == 'decode_lax':
        data, errs = schema.decode(r, validation='lax')
        return stream_view(data, errs, E)
    if api == 'to_objects':
        out = schema.to_objects(r, validation='lax')
        obj = out[0] if isinstance(out, tuple) else out
        return obj_sig(obj) if obj is not None else None
    if api in ('find_named', 'find_deep', 'find_positional', 'errors_named', 'decode_named'):
        # named paths (not wildcard-only): one step = the lazy depth, two steps = deeper than it
        path, ns = named_paths(r)[0 if api != 'find_deep' else 1]
        if path is None:
            return None
        if api == 'find_positional':
            path += '[2]'
        if api in ('find_named', 'find_deep', 'find_positional'):
            return [(e.tag, tuple(sorted(e.attrib.items()))) for e in r.iterfind(path, namespaces=ns)]
        if api == 'errors_named':
            return [clean_reason(e.reason) for e in schema.iter_errors(r, path=path, namespaces=ns)]
        out = []
        for item in schema.iter_decode(r, path=path, namespaces=ns, validation='lax'):
            out.append(clean_reason(item.reason) if isinstance(item, E) else repr(item))
        return out
    if api in ('iter', 'iter_depth', 'iterfind'):
        seq = []
        lazy_depth = depth or 0
        if api == 'iter':
            it = r.iter()
        elif api == 'iter_depth':
            it = r.iter_depth()
        else:
            root_tag = r.root.tag
            it = r.iterfind('*/*') if depth != 1 else r.iterfind('*')
        for e in it:
            if callable(e.tag):
                continue
            seq.append((e.tag, tuple(sorted(e.attrib.items())), tuple(sorted(r.get_nsmap(e).items())) if r.get_nsmap(e) else ()))
        return seq
    raise ValueError(api)


def named_paths(r):
    """(path, namespaces) for the commonest child tag of the root and for its commonest child in turn; computed from the
    document text of the resource, not from its (lazy) tree."""
    import collections
    import xml.etree.ElementTree as ET2
    if r.url:
        with open(r.filepath, 'rb') as f:
            text = f.read()
    elif hasattr(r.source, 'getvalue'):
        text = r.source.getvalue()
    else:
        text = r.source
    root = ET2.fromstring(text if isinstance(text, bytes) else text.encode('utf-8'))
    kids = collections.Counter(c.tag for c in root if isinstance(c.tag, str))
    if not kids:
        return (None, None), (None, None)
    tag1 = kids.most_common(1)[0][0]
    ns1, _, loc1 = tag1[1:].partition('}') if tag1.startswith('{') else ('', '', tag1)
    nsmap = {'q1': ns1} if ns1 else {}
    step1 = ('q1:' if ns1 else '') + loc1
    # (a grandchild that is not the first child of its parent, when there is one: the parent is then already known to
    # the XPath view when the candidate arrives)
    grand = collections.Counter(g.tag for c in root if c.tag == tag1 for g in list(c)[1:] if isinstance(g.tag, str)) or \
        collections.Counter(g.tag for c in root if c.tag == tag1 for g in c if isinstance(g.tag, str))
    if not grand:
        return (step1, nsmap), (None, None)
    tag2 = grand.most_common(1)[0][0]
    ns2, _, loc2 = tag2[1:].partition('}') if tag2.startswith('{') else ('', '', tag2)
    nsmap2 = dict(nsmap, **({'q2': ns2} if ns2 else {}))
    return (step1, nsmap), (step1 + '/' + ('q2:' if ns2 else '') + loc2, nsmap2)


def innermost_function(exc):
    import os
    import traceback
    tb = traceback.extract_tb(exc.__traceback__)
    for fr in reversed(tb):
        if os.sep + 'xmlschema' + os.sep in fr.filename:
            return f'{os.path.basename(fr.filename)}:{fr.name}'
    return None


APIS = ('is_valid', 'iter_errors', 'decode_lax', 'iter', 'iter_depth', 'iterfind', 'find_named', 'find_deep', 'find_positional',
        'errors_named', 'decode_named')


def eager_iter_depth(xmlschema, text, depth):
    """What iter_depth must yield: for an eager resource the root only; we want the elements at `depth`."""
    r = xmlschema.XMLResource(text)
    out = []

    def rec(e, d):
        if d == depth:
            out.append((e.tag, tuple(sorted(e.attrib.items())), tuple(sorted(r.get_nsmap(e).items())) if r.get_nsmap(e) else ()))
            return
        for c in e:
            if not callable(c.tag):
                rec(c, d + 1)
    rec(r.root, 0)
    return out


def strip_xmlns(text):
    import re
    return re.sub(r"'@xmlns(:\w+)?': '[^']*'(, )?", '', str(text)).replace(', }', '}')


def compare_document(res, xmlschema, schema, text, tag, case, rng, tier, scratch, nchunks, error_order=True):
    data = text.encode('utf-8')
    path = os.path.join(scratch, 'doc.xml')
    with open(path, 'wb') as f:
        f.write(data)
    makers = {
        'path': lambda lazy, thin: xmlschema.XMLResource(path, lazy=lazy, thin_lazy=thin),
        'bytes': lambda lazy, thin: xmlschema.XMLResource(data, lazy=lazy, thin_lazy=thin),
        'BytesIO': lambda lazy, thin: xmlschema.XMLResource(io.BytesIO(data), lazy=lazy, thin_lazy=thin),
    }
    eager = {}
    for api in APIS:
        if api in ('iter_depth', 'iterfind'):
            continue
        eager[api] = observe(xmlschema, schema, lambda: xmlschema.XMLResource(text), api, 0)
    long_doc = len(text) > 30000
    # (long documents are the expensive ones: depths 2 and 3, explored and not claimed, are visited for a quarter of them)
    for depth in ((1,) if long_doc and (tier == 'quick' or rng.random() < 0.75) else (1, 2, 3)):
        claimed = depth == 1
        eager['iter_depth'] = eager_iter_depth(xmlschema, text, depth)
        eager['iterfind'] = observe(xmlschema, schema, lambda: xmlschema.XMLResource(text), 'iterfind', depth)
        for thin in (True, False):
            kinds = (rng.sample(list(makers), 2) if long_doc else list(makers)) if tier == 'thorough' else \
                rng.sample(list(makers), 1 if long_doc else 2)
            for kind in kinds:
                for api in APIS:
                    if api == 'iterfind' and depth == 3:
                        continue
                    label = f'lazy={depth} thin={thin} source={kind} api={api}'
                    try:
                        got = observe(xmlschema, schema, lambda: makers[kind](depth, thin), api, depth)
                    except Exception as e:
                        if claimed:
                            res.evaluations += 1
                            mech = f'lazy-raised:{api}:{type(e).__name__}'
                            if api == 'decode_lax' and isinstance(e, KeyError) and innermost_function(e) == 'identities.py:iter_errors':
                                mech = 'lazy-decode-keyref-check-raises-KeyError'
                            res.violation(mech, dict(case, lazy=depth, thin=thin, source=kind, api=api),
                                          f'{tag}: {label} raised {e!r}'[:400])
                        else:
                            res.count(f'explored_not_claimed:depth{depth}:raised:{type(e).__name__}')
                        continue
                    same = got == eager[api]
                    if not same and not error_order:
                        # (an unresolvable xsi:type is reported once by the parent's content model and once by the
                        # element: the lazy run reports the same errors, in another order)
                        if api in ('iter_errors', 'errors_named') and isinstance(got, list):
                            same = sorted(map(str, got)) == sorted(map(str, eager[api]))
                        elif api == 'decode_lax' and got[:2] == eager[api][:2]:
                            same = sorted(got[2]) == sorted(eager[api][2])
                    if api == 'iter' and not same:
                        # the property speaks of the same elements; the order inside a streamed chunk is reported only
                        same = sorted(got) == sorted(eager[api])
                        if same:
                            res.count(f'explored_not_claimed:depth{depth}:iter_order_within_chunk_differs')
                    if claimed:
                        res.case(env.h8((tag[0], tag[1], api, thin)) if nchunks >= 2 else None)
                        res.count(f'depth1:{api}')
                        if same:
                            res.count('depth1:agree')
                        else:
                            mech = f'lazy-differs:{api}'
                            if api == 'find_positional' and thin:
                                mech = 'thin-lazy-positional-predicate-counts-only-siblings-still-in-memory'
                            if api == 'decode_lax' and got[0] == eager[api][0] and got[1] != eager[api][1] and \
                                    sorted(got[2]) == sorted(eager[api][2]) and \
                                    sorted(strip_xmlns(x) for x in got[1]) == sorted(strip_xmlns(x) for x in eager[api][1]):
                                mech = 'lazy-decode-drops-namespace-declarations-of-streamed-chunk'
                            if api == 'decode_lax' and got[:2] == eager[api][:2]:
                                missing = [r for r in eager[api][2] if r not in got[2]]
                                extra = [r for r in got[2] if r not in eager[api][2]]
                                if missing and not extra and all(IDENTITY_RE.search(r) for r in missing):
                                    mech = 'lazy-decode-drops-identity-constraint-errors'
                                elif extra and not missing and all('is not an element of the schema' in r for r in extra):
                                    mech = 'lazy-decode-extra-error-for-undeclared-streamed-child'
                            res.violation(mech, dict(case, lazy=depth, thin=thin, source=kind, api=api),
                                          f'{tag}: {label}: lazy {str(got)[:220]} eager {str(eager[api])[:220]}')
                    else:
                        res.count(f'explored_not_claimed:depth{depth}:' + ('agree' if same else f'differs:{api}'))


def align_to_buffer(text, size=16384):
    """Insert a comment after the root's start tag so that the start tag of the second child of some depth-1 element
    lands exactly on a multiple of the parser's read size."""
    import re
    data = text.encode('utf-8')
    head_end = data.index(b'>', data.index(b'<', data.index(b'?>') + 2 if data.startswith(b'<?xml') else 0)) + 1
    # second-level start tags: '<x:price' etc. after a '</x:title>' of a product beyond the first buffer
    for m in re.finditer(rb'</(?:\w+:)?title><', data):
        pos = m.end() - 1
        if pos > size // 2:
            pad = (-(pos)) % size
            if pad < 7:
                pad += size
            out = data[:head_end] + b'<!--' + b'p' * (pad - 7) + b'-->' + data[head_end:]
            assert (pos + pad) % size == 0
            return out.decode('utf-8')
    return None


def run_gen(spec, res):
    xmlschema = env.activate_repo()
    schemas = {}
    for fam in D.FAMILIES:
        for v, cls in (('1.0', xmlschema.XMLSchema10), ('1.1', xmlschema.XMLSchema11)):
            schemas[fam, v] = cls(D.family_xsd(fam, v))
    rng = env.rng_for(PROPERTY, spec['tier'], spec['seed'], spec['gshard'])
    scratch = tempfile.mkdtemp(prefix='c06-')
    for d in range(spec['docs']):
        fam = rng.choice(('shop', 'shop', 'tree', 'ctx'))
        # (quick tier: a shard has either a long shop document or a long flat one)
        half = spec['tier'] == 'quick'
        big = d % 8 == 0 and not (half and spec['gshard'] % 2)
        if big:
            # longer than several parser read buffers (16 KiB each): the streamed tree is extended while it is consumed
            fam = 'shop'
            doc = D.gen_shop(rng, nprod=rng.randint(80, 140), nord=rng.randint(20, 50))
            res.count('big_documents')
        else:
            doc = D.GENERATORS[fam](rng)
        version = rng.choice(('1.0', '1.1'))
        schema = schemas[fam, version]
        prefixes = D.default_prefixes(fam, rng)
        variants = [(doc, 'valid')]
        faults = [(p, k) for p, n in doc.walk() for k in D.faults_at(doc, p)]
        rng.shuffle(faults)
        for p, k in faults[:1 if big else 2]:
            r = D.apply_fault(doc, p, k, rng)
            if r:
                variants.append((r[0], k))
        for idk in rng.sample(D.IDENTITY_FAULTS, 1 if big else 2):
            r = D.identity_fault(doc, fam, idk, rng)
            if r:
                variants.append((r[0], idk))
        if big:
            # the same damage at the end of the long document: met by the streaming reader after many chunks
            for idk in ['dup_key', 'dangling_keyref', rng.choice(('dup_unique', 'dangling_idref', 'dup_id'))]:
                r = D.identity_fault(doc, fam, idk, rng, late=True)
                if r:
                    variants.append((r[0], idk + ':late'))
        if d % 8 == 4 and not (half and spec['gshard'] % 2 == 0):
            # long documents of leaf records (a streamed chunk without children) with a key / keyref on the root
            fam, version = 'flat', rng.choice(('1.0', '1.1'))
            schema = schemas.get((fam, version)) or schemas.setdefault((fam, version), (
                xmlschema.XMLSchema10 if version == '1.0' else xmlschema.XMLSchema11)(D.family_xsd(fam, version)))
            prefixes = D.default_prefixes(fam, rng)
            nrec = rng.randint(700, 1500)
            variants = [(D.gen_flat(rng, None, nrec), 'valid'), (D.gen_flat(rng, 'dup_key_late', nrec), 'dup_key:late'),
                        (D.gen_flat(rng, 'dangling_keyref_late', nrec), 'dangling_keyref:late')]
            res.count('big_documents')
        for tree, fault in variants:
            text = D.render_doc(tree, fam, prefixes=prefixes)
            if big and fault == 'valid':
                # the same document padded so that a read-buffer boundary of the parser (16 KiB) falls inside a product,
                # between two of its children: the streamed chunk is extended after its first children were seen
                aligned = align_to_buffer(text)
                if aligned:
                    case = {'family': fam, 'version': version, 'doc': aligned, 'fault': 'valid:buffer-boundary-inside-a-chunk'}
                    res.count('big_documents:aligned_to_buffer_boundary')
                    compare_document(res, xmlschema, schema, aligned, (fam, 'valid:aligned'), case, rng, spec['tier'], scratch,
                                     len(tree.children))
            case = {'family': fam, 'version': version, 'doc': text, 'fault': fault}
            compare_document(res, xmlschema, schema, text, (fam, fault), case, rng, spec['tier'], scratch, len(tree.children))
            if len(res.samples) < 2:
                res.sample({'family': fam, 'fault': fault, 'root_children': len(tree.children), 'chars': len(text)})


def run_corpus(spec, res):
    xmlschema = env.activate_repo()
    from vk.gen import corpus as C
    rng = env.rng_for(PROPERTY, spec['tier'], spec['seed'], 'corpus')
    scratch = tempfile.mkdtemp(prefix='c06-')
    for entry in C.instances():
        schema = C.schema_for(entry)
        if schema is None or os.path.getsize(entry['xml']) > 200000:
            continue
        with open(entry['xml'], 'rb') as f:
            raw = f.read()
        try:
            text = raw.decode('utf-8')
        except UnicodeDecodeError:
            continue
        head = text.split('?>')[0].lower() if text.lstrip().startswith('<?xml') else ''
        if 'encoding' in head and 'utf-8' not in head:
            continue
        case = {'corpus': os.path.relpath(entry['xml'], env.VERIF_REPO), 'version': entry['version']}
        try:
            nch = len(xmlschema.XMLResource(text).root)
            compare_document(res, xmlschema, schema, text, ('corpus', os.path.basename(entry['xml'])), case, rng,
                             spec['tier'], scratch, nch)
        except xmlschema.XMLSchemaException as e:
            res.count('corpus:eager_raised:' + type(e).__name__)
        res.count('corpus:documents')


CHUNKNS_XSD = f'''<xs:schema xmlns:xs="http://www.w3.org/2001/XMLSchema" targetNamespace="urn:vk:cn" xmlns:t="urn:vk:cn">
<xs:complexType name="base"><xs:sequence><xs:element name="v" type="xs:QName" minOccurs="0" maxOccurs="unbounded"/></xs:sequence>
  <xs:attribute name="q" type="xs:QName"/></xs:complexType>
<xs:complexType name="ext"><xs:complexContent><xs:extension base="t:base"><xs:attribute name="z" type="xs:int"/></xs:extension></xs:complexContent></xs:complexType>
<xs:element name="root"><xs:complexType><xs:sequence>
  <xs:element name="item" type="t:base" maxOccurs="unbounded"/></xs:sequence><xs:attribute name="q" type="xs:QName"/></xs:complexType></xs:element>
</xs:schema>'''


def run_chunkns(spec, res):
    """Namespace declarations made on the streamed chunk itself (the depth-1 child) and used by QName values and by the
    xsi:type of that same element, of its children and - wrongly - of its following siblings."""
    xmlschema = env.activate_repo()
    rng = env.rng_for(PROPERTY, spec['tier'], spec['seed'], 'chunkns')
    scratch = tempfile.mkdtemp(prefix='c06-')
    XSI = 'http://www.w3.org/2001/XMLSchema-instance'
    for version, cls in (('1.0', xmlschema.XMLSchema10), ('1.1', xmlschema.XMLSchema11)):
        schema = cls(CHUNKNS_XSD)
        for d in range(spec['docs']):
            items = []
            bound_on_root = rng.random() < 0.3
            for i in range(rng.randint(1, 4)):
                own = rng.random() < 0.6            # the chunk declares the prefix p itself
                attrs = ' xmlns:p="urn:vk:cn"' if own else ''
                uses_p = own or bound_on_root or rng.random() < 0.25     # the last: p not in scope => an error in both runs
                if rng.random() < 0.5:
                    attrs += f' xsi:type="{"p" if uses_p else "r"}:ext" z="1"'
                if rng.random() < 0.5:
                    attrs += f' q="{"p" if uses_p else "r"}:zz"'
                kid_list = [f'<v>{"p" if uses_p and rng.random() < 0.7 else "r"}:k{j}</v>' for j in range(rng.choice((0, 0, 1, 2)))]
                if kid_list and rng.random() < 0.5:
                    # the last child opens a namespace scope of its own: two scopes close back to back, and the
                    # declarations of the chunk must not stay in scope for the following chunks
                    kid_list[-1] = kid_list[-1].replace('<v>', '<v xmlns:c="urn:vk:c2">' if rng.random() < 0.6 else '<v xmlns:p="urn:vk:cn">', 1)
                kids = ''.join(kid_list)
                items.append(f'<item{attrs}>{kids}</item>' if kids else f'<item{attrs}/>')
            text = (f'<r:root xmlns:r="urn:vk:cn" xmlns:xsi="{XSI}"' + (' xmlns:p="urn:vk:cn"' if bound_on_root else '') +
                    (' q="r:top"' if rng.random() < 0.3 else '') + '>' + ''.join(items) + '</r:root>')
            fault = 'valid' if schema.is_valid(text) else 'prefix_out_of_scope'
            case = {'family': 'chunkns', 'version': version, 'doc': text, 'fault': fault}
            res.count('chunkns:documents:' + fault)
            compare_document(res, xmlschema, schema, text, ('chunkns', fault), case, rng, spec['tier'], scratch, len(items),
                             error_order=fault == 'valid')


ROOTX_XSD = '''<xs:schema xmlns:xs="http://www.w3.org/2001/XMLSchema">
<xs:complexType name="base"><xs:sequence><xs:element name="a" type="xs:int" maxOccurs="unbounded"/></xs:sequence></xs:complexType>
<xs:complexType name="ext"><xs:complexContent><xs:extension base="base"><xs:sequence><xs:element name="b" type="xs:int" minOccurs="0" maxOccurs="unbounded"/>
</xs:sequence></xs:extension></xs:complexContent></xs:complexType>
<xs:element name="root" type="base"/>
<xs:element name="g" type="xs:int"/>
<xs:element name="open"><xs:complexType><xs:sequence><xs:any processContents="skip" minOccurs="0" maxOccurs="unbounded"/></xs:sequence></xs:complexType></xs:element>
<xs:element name="laxo"><xs:complexType><xs:sequence><xs:any processContents="lax" minOccurs="0" maxOccurs="unbounded"/></xs:sequence></xs:complexType></xs:element>
</xs:schema>'''


def run_rootx(spec, res):
    """What governs a streamed chunk is decided by its parent: the root's xsi:type (children that exist only in the derived
    type) and the wildcard that admits it (a skipped child is not validated). The mechanism of a difference is named by the
    scenario, not by the message."""
    xmlschema = env.activate_repo()
    rng = env.rng_for(PROPERTY, spec['tier'], spec['seed'], 'rootx')
    XSI = 'xmlns:xsi="http://www.w3.org/2001/XMLSchema-instance"'
    for version, cls in (('1.0', xmlschema.XMLSchema10), ('1.1', xmlschema.XMLSchema11)):
        schema = cls(ROOTX_XSD)
        cases = []
        for _ in range(spec['docs']):
            a = ''.join(f'<a>{rng.choice(("1", "2", "x"))}</a>' for _ in range(rng.randint(1, 3)))
            b = ''.join(f'<b>{rng.choice(("1", "x", "y"))}</b>' for _ in range(rng.randint(0, 3)))
            cases.append(('root-xsi-type', f'<root {XSI} xsi:type="ext">{a}{b}</root>'))
            cases.append(('root-plain', f'<root>{a}</root>'))
            g = ''.join(f'<g>{rng.choice(("1", "abc"))}</g><other>{rng.choice(("1", "abc"))}</other>' for _ in range(rng.randint(1, 3)))
            cases.append(('skip-wildcard', f'<open>{g}</open>'))
            # chunks admitted by a lax wildcard: declared ones (<g>) are validated, undeclared ones (<w>) are assessed laxly,
            # i.e. their declared descendants are validated too
            parts, direct_bad = [], 0
            for _ in range(rng.randint(1, 4)):
                v = rng.choice(('1', 'abc'))
                if rng.random() < 0.5:
                    parts.append(f'<g>{v}</g>')
                    direct_bad += v == 'abc'
                else:
                    parts.append(f'<w><g>{v}</g></w>')
            cases.append((('lax-wildcard', direct_bad), f'<laxo>{"".join(parts)}</laxo>'))
        for scenario, text in cases:
            direct_bad = None
            if isinstance(scenario, tuple):
                scenario, direct_bad = scenario
            for thin in (True, False):
                res.count('rootx:compared')
                res.evaluations += 1
                res.case(env.h8(('rootx', scenario, thin, text)))
                eager = sorted(clean_reason(e.reason) for e in schema.iter_errors(text))
                lazy = sorted(clean_reason(e.reason) for e in schema.iter_errors(xmlschema.XMLResource(text, lazy=1, thin_lazy=thin)))
                if eager == lazy:
                    res.count('rootx:agree')
                    continue
                if scenario == 'root-xsi-type' and set(lazy) <= set(eager):
                    mech = 'lazy-skips-children-that-exist-only-in-the-type-named-by-xsi-type-on-the-root'
                elif scenario == 'skip-wildcard' and set(eager) <= set(lazy):
                    mech = 'lazy-validates-children-admitted-by-a-skip-wildcard'
                elif scenario == 'lax-wildcard' and len(lazy) == direct_bad and not (collections.Counter(lazy) - collections.Counter(eager)):
                    # every fault of a declared chunk is reported; only those inside undeclared chunks are missing
                    mech = 'lazy-skips-undeclared-chunk-admitted-by-a-lax-wildcard'
                else:
                    mech = 'lazy-differs:rootx:' + scenario
                res.violation(mech, {'family': 'rootx', 'version': version, 'doc': text, 'thin': thin},
                              f'{scenario} thin={thin}: lazy {lazy[:3]} eager {eager[:3]}')


def run_shard(spec, res):
    {'gen': run_gen, 'corpus': run_corpus, 'chunkns': run_chunkns, 'rootx': run_rootx}[spec['kind']](spec, res)


def finalize(res, tier):
    c = res.counters
    reasons = []
    for api in APIS:
        if not c.get('depth1:' + api):
            reasons.append(f'api {api} never compared at depth 1')
    if c.get('depth1:agree', 0) < 200:
        reasons.append('fewer than 200 agreeing comparisons at depth 1')
    explored = {k: v for k, v in c.items() if k.startswith('explored_not_claimed')}
    return {'inconclusive': reasons, 'coverage': {'explored_not_claimed': explored}}


def replay(case):
    xmlschema = env.activate_repo()
    from vk.result import Result
    import random
    res = Result()
    if 'corpus' in case:
        run_corpus({'tier': 'thorough', 'seed': 0}, res)
    else:
        cls = xmlschema.XMLSchema10 if case['version'] == '1.0' else xmlschema.XMLSchema11
        own = {'rootx': ROOTX_XSD, 'chunkns': CHUNKNS_XSD}
        schema = cls(own[case['family']] if case['family'] in own else D.family_xsd(case['family'], case['version']))
        compare_document(res, xmlschema, schema, case['doc'], ('replay', ''), case, random.Random(0), 'thorough',
                         tempfile.mkdtemp(prefix='c06-'), 2)
    for v in res.violations:
        print(v['mechanism'], v['detail'][:500])
    return bool(res.violations)
