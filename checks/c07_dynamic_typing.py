"""C07 - dynamic typing, substitution and nil obey derivation, block and abstract rules."""
from vk import env

PROPERTY = 'C07'
LEVEL = 'exploration'
RULE = ('seeded type hierarchies: 3-7 named complex types in extension / restriction chains (up to 3 steps) with abstract and '
        'block on types, blockDefault on the schema, 1-2 simple types restricting xs:int; element declarations with block '
        '(extension / restriction / substitution / #all), nillable, fixed; substitution groups with 2-3 members whose types '
        'are derived from the head\'s type, abstract heads and members, heads blocking substitution / extension / restriction; '
        'instance variants: every global type name (plus an unknown one and built-ins) as xsi:type with content built for the '
        'declared and for the named type, xsi:nil in {absent, true, false, 1, 0, junk} x content {empty, text, child}, fixed '
        'values in lexical variants, every member in place of every head; XSD 1.1: type alternatives (2-3 tests on an '
        'attribute, default alternative, xs:error); a case = (hierarchy, element, variant); distinct non-trivial = distinct '
        '(hierarchy, variant) where xsi:type, nil, a substitute or an alternative is involved')
RULE += (' ' + 'Fixed values of union types (integer / decimal equal in value space; integer / boolean distinct).')
ASSUMPTIONS = [
    'Type Derivation OK is read as in the recommendation: the methods used along the chain from the named type to the declared '
    'type must not be in the union of the element\'s disallowed substitutions and the declared type\'s prohibited substitutions',
    'content under the governing type differs only in which leaf children are present, so content-model defects (C01) cannot leak in',
    'libxml2 (lxml) arbitrates XSD 1.0 verdicts: a disagreement where it sides with the library is counted as disputed',
    'hierarchies that the library refuses to build are tallied, not judged (the property is about instances)',
]
ANCHORS = {
    'xmlschema/validators/elements.py': [(597, 772), (1340, 1363), (1568, 1576)],
    'xmlschema/validators/xsd_globals.py': [(285, 315)],
    'xmlschema/validators/xsdbase.py': [(843, 857)],
    'xmlschema/validators/complex_types.py': [(646, 673)],
    'xmlschema/validators/simple_types.py': [(412, 440)],
    'xmlschema/validators/groups.py': [(852, 940)],
}
SHARD_TIMEOUT = {'quick': 900, 'thorough': 3600}
LEVEL_TEXT = ('Runtime monitoring with a reference-model oracle: a derivation-graph model (chains with methods, abstract, block at '
              'schema / type / element level, substitution groups, nil and fixed rules, first-true alternative) decides every '
              'xsi:type / nil / substitute variant of seeded hierarchies; the real validators\' verdicts are compared with it, '
              'libxml2 arbitrating XSD 1.0.')
LEVEL_NOTE = 'Trusted: the 120-line derivation model, the hierarchy renderer, libxml2 as tie-breaker for 1.0.'
TECHNIQUE = 'runtime monitoring: reference-model oracle (derivation / blocking / substitution / nil rules) with libxml2 arbiter'

XS = 'http://www.w3.org/2001/XMLSchema'
XSI = 'http://www.w3.org/2001/XMLSchema-instance'
TNS = 'urn:vk:dt'
BLOCKS = ('', '', 'extension', 'restriction', '#all', 'extension restriction')
EBLOCKS = ('', '', '', 'extension', 'restriction', 'substitution', '#all', 'restriction substitution')


def plan(tier, seed):
    n = 320 if tier == 'quick' else 4000
    shards = 16 if tier == 'quick' else 48
    specs = [{'kind': 'hier', 'n': n // shards, 'hshard': s} for s in range(shards)]
    specs.append({'kind': 'alt', 'n': 40 if tier == 'quick' else 600})
    specs.append({'kind': 'simple'})
    return specs


# ---------------------------------------------------------------------------------------------
def gen_hierarchy(rng):
    """types: name -> dict(base, method, content [(name, min)], abstract, block(None=inherit default))."""
    types = {}
    order = []
    n = rng.randint(3, 7)
    for i in range(n):
        name = f'T{i}'
        if i == 0 or (rng.random() < 0.2 and i < 3):
            base, method = None, None
            content = [('a', 1), ('o', 0)]
        else:
            base = rng.choice(order)
            method = rng.choice(('extension', 'restriction'))
            bc = list(types[base]['content'])
            if method == 'extension':
                content = bc + [(f'x{i}', 1)]
            else:
                content = [(nm, mn) for nm, mn in bc if not (nm == 'o' and rng.random() < 0.7)]
        types[name] = {'base': base, 'method': method, 'content': content,
                       'abstract': rng.random() < 0.15,
                       'block': rng.choice(BLOCKS) if rng.random() < 0.5 else None}
        order.append(name)
    h = {'types': types, 'order': order, 'block_default': rng.choice(('', '', '', 'extension', 'restriction', '#all', 'substitution')),
         'elements': [], 'subst': None, 'simple': rng.random() < 0.5,
         # an element without a type (xs:anyType): every complex type derives from it, a root type by restriction
         'untyped_block': rng.choice(EBLOCKS) if rng.random() < 0.7 else None}
    for i in range(rng.randint(2, 4)):
        h['elements'].append({'name': f'el{i}', 'type': rng.choice(order),
                              'block': rng.choice(EBLOCKS) if rng.random() < 0.6 else None,
                              'nillable': rng.random() < 0.5})
    if rng.random() < 0.7:
        ht = rng.choice(order)
        members = []
        for k in range(rng.randint(1, 3)):
            cands = [t for t in order if derives(types, t, ht) is not None]
            m = {'name': f'm{k}', 'type': rng.choice(cands), 'abstract': rng.random() < 0.2, 'block': None, 'sub': None}
            if rng.random() < 0.45:
                # a second level: an element that substitutes the member, and so (transitively) the head
                m['abstract'] = rng.random() < 0.4
                m['block'] = 'substitution' if rng.random() < 0.15 else None
                sub_cands = [t for t in order if derives(types, t, m['type']) is not None]
                m['sub'] = {'name': f'm{k}s', 'type': rng.choice(sub_cands), 'abstract': rng.random() < 0.1}
            members.append(m)
        h['subst'] = {'head_type': ht, 'head_abstract': rng.random() < 0.25,
                      'head_block': rng.choice(EBLOCKS) if rng.random() < 0.6 else None, 'members': members}
    return h


def derives(types, d, b):
    """Methods along the chain from d up to b, or None if d is not derived from b (d == b -> [])."""
    methods = []
    cur = d
    while cur is not None:
        if cur == b:
            return methods
        methods.append(types[cur]['method'])
        cur = types[cur]['base']
    return None


def blockset(value, default, element):
    """Effective set of blocked methods for a block attribute value (None = inherit blockDefault)."""
    v = default if value is None else value
    if v == '#all':
        return {'extension', 'restriction', 'substitution'} if element else {'extension', 'restriction'}
    s = set(v.split())
    if not element:
        s.discard('substitution')
    return s


def occ(mn):
    return '' if mn == 1 else ' minOccurs="0"'


def type_xml(name, t):
    ab = ' abstract="true"' if t['abstract'] else ''
    bl = f' block="{t["block"]}"' if t['block'] is not None else ''
    seq = ''.join(f'<xs:element name="{nm}" type="xs:string"{occ(mn)}/>' for nm, mn in t['content'])
    if t['base'] is None:
        return f'<xs:complexType name="{name}"{ab}{bl}><xs:sequence>{seq}</xs:sequence></xs:complexType>'
    if t['method'] == 'extension':
        extra = t['content'][-1]
        body = f'<xs:sequence><xs:element name="{extra[0]}" type="xs:string"{occ(extra[1])}/></xs:sequence>'
    else:
        body = f'<xs:sequence>{seq}</xs:sequence>'
    return (f'<xs:complexType name="{name}"{ab}{bl}><xs:complexContent><xs:{t["method"]} base="t:{t["base"]}">{body}'
            f'</xs:{t["method"]}></xs:complexContent></xs:complexType>')


def schema_text(h):
    bd = f' blockDefault="{h["block_default"]}"' if h['block_default'] else ''
    out = f'<xs:schema xmlns:xs="{XS}" targetNamespace="{TNS}" xmlns:t="{TNS}" elementFormDefault="qualified"{bd}>'
    for name in h['order']:
        out += type_xml(name, h['types'][name])
    if h['simple']:
        out += ('<xs:simpleType name="S0"><xs:restriction base="xs:int"><xs:minInclusive value="0"/></xs:restriction></xs:simpleType>'
                '<xs:simpleType name="S1"><xs:restriction base="t:S0"><xs:maxInclusive value="9"/></xs:restriction></xs:simpleType>'
                '<xs:simpleType name="UID"><xs:union memberTypes="xs:integer xs:decimal"/></xs:simpleType>'
                '<xs:simpleType name="UIB"><xs:union memberTypes="xs:integer xs:boolean"/></xs:simpleType>')
    kids = ''
    for e in h['elements']:
        bl = f' block="{e["block"]}"' if e['block'] is not None else ''
        nl = ' nillable="true"' if e['nillable'] else ''
        kids += f'<xs:element name="{e["name"]}" type="t:{e["type"]}"{bl}{nl} minOccurs="0" maxOccurs="unbounded"/>'
    ub = f' block="{h["untyped_block"]}"' if h.get('untyped_block') is not None else ''
    kids += f'<xs:element name="u"{ub} minOccurs="0" maxOccurs="unbounded"/>'
    if h['simple']:
        kids += ('<xs:element name="s" type="t:S0" minOccurs="0" maxOccurs="unbounded" nillable="true"/>'
                 '<xs:element name="f" type="xs:decimal" fixed="1.0" minOccurs="0" maxOccurs="unbounded" nillable="true"/>'
                 '<xs:element name="fu" type="t:UID" fixed="1" minOccurs="0" maxOccurs="unbounded"/>'
                 '<xs:element name="fb" type="t:UIB" fixed="true" minOccurs="0" maxOccurs="unbounded"/>')
    if h['subst']:
        kids += '<xs:element ref="t:head" minOccurs="0" maxOccurs="unbounded"/>'
    out += f'<xs:element name="root"><xs:complexType><xs:sequence>{kids}</xs:sequence></xs:complexType></xs:element>'
    if h['subst']:
        s = h['subst']
        ab = ' abstract="true"' if s['head_abstract'] else ''
        bl = f' block="{s["head_block"]}"' if s['head_block'] is not None else ''
        out += f'<xs:element name="head" type="t:{s["head_type"]}"{ab}{bl}/>'
        for m in s['members']:
            mab = ' abstract="true"' if m['abstract'] else ''
            mbl = f' block="{m["block"]}"' if m.get('block') else ''
            out += f'<xs:element name="{m["name"]}" type="t:{m["type"]}" substitutionGroup="t:head"{mab}{mbl}/>'
            if m.get('sub'):
                sab = ' abstract="true"' if m['sub']['abstract'] else ''
                out += f'<xs:element name="{m["sub"]["name"]}" type="t:{m["sub"]["type"]}" substitutionGroup="t:{m["name"]}"{sab}/>'
    return out + '</xs:schema>'


def content_xml(content, with_optional):
    return ''.join(f'<t:{nm}>v</t:{nm}>' for nm, mn in content if mn == 1 or with_optional)


def content_ok(h, gtype, given):
    """given: list of child names; valid iff it equals the governing type's content with optionals free."""
    want = h['types'][gtype]['content']
    i = 0
    for nm, mn in want:
        if i < len(given) and given[i] == nm:
            i += 1
        elif mn == 1:
            return False
    return i == len(given)


def wrap(inner):
    return f'<t:root xmlns:t="{TNS}" xmlns:xsi="{XSI}" xmlns:xs="{XS}">{inner}</t:root>'


def elem_xml(tag, xsi_type=None, nil=None, children=None, text=None):
    a = ''
    if xsi_type is not None:
        a += f' xsi:type="{xsi_type}"'
    if nil is not None:
        a += f' xsi:nil="{nil}"'
    inner = ''.join(f'<t:{c}>v</t:{c}>' for c in (children or [])) + (text or '')
    return f'<t:{tag}{a}>{inner}</t:{tag}>' if inner else f'<t:{tag}{a}/>'


def ref_element(h, decl_type, eblock, nillable, xsi_type, nil, children, text, abstract_elem=False):
    """Reference verdict for one element occurrence governed by a declaration. Returns (valid, tags)."""
    types = h['types']
    tags = set()
    if abstract_elem:
        return False, {'abstract-element'}
    g = decl_type
    if xsi_type is not None:
        tags.add('xsi:type')
        name = xsi_type[2:] if xsi_type.startswith('t:') else None
        if name is None or name not in types:
            return False, tags | {'unknown-or-foreign-type'}
        chain = derives(types, name, decl_type)
        if chain is None:
            return False, tags | {'not-derived'}
        blocked = blockset(eblock, h['block_default'], True) | blockset(types[decl_type]['block'], h['block_default'], False)
        if set(chain) & blocked:
            return False, tags | {'blocked'}
        g = name
    if types[g]['abstract']:
        return False, tags | {'abstract-type'}
    if nil is not None:
        tags.add('nil')
        if nil not in ('true', 'false', '1', '0'):
            return False, tags | {'nil-not-boolean'}
        if not nillable:
            return False, tags | {'nil-on-non-nillable'}
        if nil in ('true', '1'):
            if children or text:
                return False, tags | {'nil-with-content'}
            return True, tags
    if text:
        return False, tags | {'text-in-element-only'}
    return content_ok(h, g, children or []), tags


def variants_for(h, rng, tier):
    """Yield (xml of one child of root, expected valid, tags)."""
    types = h['types']
    names = h['order']
    for e in h['elements']:
        decl = e['type']
        xsis = [None] + ['t:' + n for n in names] + ['t:Nope', 'xs:string', 'xs:anyType']
        for x in xsis:
            target = x[2:] if (x and x.startswith('t:') and x[2:] in types) else decl
            for cont_type in {decl, target}:
                for with_opt in (False, True):
                    kids = [nm for nm, mn in types[cont_type]['content'] if mn == 1 or with_opt]
                    ok, tags = ref_element(h, decl, e['block'], e['nillable'], x, None, kids, None)
                    yield elem_xml(e['name'], x, None, kids), ok, tags
        for nil in ('true', 'false', '1', '0', 'junk'):
            for kids, text in (([], None), ([nm for nm, mn in types[decl]['content'] if mn == 1], None), ([], 'txt')):
                ok, tags = ref_element(h, decl, e['block'], e['nillable'], None, nil, kids, text)
                yield elem_xml(e['name'], None, nil, kids, text), ok, tags
        # nil together with xsi:type
        x = 't:' + rng.choice(names)
        ok, tags = ref_element(h, decl, e['block'], e['nillable'], x, 'true', [], None)
        yield elem_xml(e['name'], x, 'true'), ok, tags
    ublocked = blockset(h.get('untyped_block'), h['block_default'], True)
    for n in names:
        chain = []
        cur = n
        while cur is not None:
            chain.append(types[cur]['method'] or 'restriction')      # a root type restricts xs:anyType
            cur = types[cur]['base']
        kids = [nm for nm, mn in types[n]['content'] if mn == 1]
        tags = {'xsi:type', 'untyped-element'}
        if set(chain) & ublocked:
            ok, tags = False, tags | {'blocked'}
        elif types[n]['abstract']:
            ok, tags = False, tags | {'abstract-type'}
        else:
            ok = True
        yield elem_xml('u', 't:' + n, None, kids), ok, tags
    if h['simple']:
        s1_ok = 'restriction' not in blockset(None, h['block_default'], True)
        for x, text, ok in ((None, '5', True), (None, '-1', False), ('t:S1', '5', s1_ok), ('t:S1', '12', False),
                            ('t:S0', '12', True), ('xs:int', '5', False), ('xs:string', 'x', False), ('t:T0', '5', False)):
            yield f'<t:s{" xsi:type=" + chr(34) + x + chr(34) if x else ""}>{text}</t:s>', ok, {'simple', 'xsi:type'} if x else {'simple'}
        for nil, text, ok in (('true', '', True), ('true', '5', False), ('false', '5', True), ('false', '', False)):
            yield f'<t:s xsi:nil="{nil}">{text}</t:s>', ok, {'simple', 'nil'}
        for text, ok in (('1.0', True), ('1', True), ('1.00', True), ('+1.0', True), ('1.01', False), ('', True if False else False)):
            yield f'<t:f>{text}</t:f>', ok if text else True, {'fixed'}   # empty element takes the fixed value
        yield '<t:f xsi:nil="true"/>', False, {'fixed', 'nil'}       # nil with a fixed value is not allowed
        # fixed values of unions compare in value space: integer 1 = decimal 1.0 (one primitive type), integer 1 != boolean true
        for text, ok in (('1', True), ('1.0', True), ('01', True), ('1.00', True), ('2', False), ('1.5', False)):
            yield f'<t:fu>{text}</t:fu>', ok, {'fixed', 'fixed-union'}
        for text, ok in (('true', True), ('1', False), ('0', False), ('false', False)):
            yield f'<t:fb>{text}</t:fb>', ok, {'fixed', 'fixed-union'}
    s = h['subst']
    if s:
        ht = s['head_type']
        hkids = [nm for nm, mn in types[ht]['content'] if mn == 1]
        ok, tags = ref_element(h, ht, s['head_block'], False, None, None, hkids, None, abstract_elem=s['head_abstract'])
        yield elem_xml('head', None, None, hkids), ok, tags | {'head'}
        blocked = blockset(s['head_block'], h['block_default'], True)
        for m in s['members']:
            mkids = [nm for nm, mn in types[m['type']]['content'] if mn == 1]
            chain = derives(types, m['type'], ht)
            tags = {'substitute'}
            if 'substitution' in blocked:
                ok = False
                tags.add('substitution-blocked')
            elif set(chain) & (blocked | blockset(types[ht]['block'], h['block_default'], False)):
                ok = False
                tags.add('substitution-blocked-by-derivation-method')
            elif m['abstract']:
                ok = False
                tags.add('abstract-member')
            elif types[m['type']]['abstract']:
                ok = False
                tags.add('abstract-type')
            else:
                ok = True
            yield elem_xml(m['name'], None, None, mkids), ok, tags
            if m.get('sub'):
                # Substitution Group OK (Transitive): the head's blocking constraint, the methods of the whole type chain
                # and the sub-member itself decide; an abstract or substitution-blocking *intermediate* member does not
                sub = m['sub']
                skids = [nm for nm, mn in types[sub['type']]['content'] if mn == 1]
                schain = derives(types, sub['type'], ht)
                inter_blocks = set()
                cur = sub['type']
                while cur is not None and cur != ht:
                    cur = types[cur]['base']
                    if cur is not None and cur != ht:
                        inter_blocks |= blockset(types[cur]['block'], h['block_default'], False)
                stags = {'substitute', 'transitive'}
                if m['abstract']:
                    stags.add('abstract-intermediate')
                if 'substitution' in blockset(m.get('block'), h['block_default'], True):
                    stags.add('intermediate-blocks-substitution')
                direct_blocks = blocked | blockset(types[ht]['block'], h['block_default'], False)
                if 'substitution' in blocked:
                    sok = False
                    stags.add('substitution-blocked')
                elif set(schain) & (direct_blocks | inter_blocks):
                    sok = False
                    stags.add('substitution-blocked-by-derivation-method' if set(schain) & direct_blocks
                              else 'substitution-blocked-only-by-an-intermediate-type')
                elif sub['abstract']:
                    sok = False
                    stags.add('abstract-member')
                elif types[sub['type']]['abstract']:
                    sok = False
                    stags.add('abstract-type')
                else:
                    sok = True
                yield elem_xml(sub['name'], None, None, skids), sok, stags
            # head with xsi:type of the member's type
            ok2, tags2 = ref_element(h, ht, s['head_block'], False, 't:' + m['type'], None, mkids, None,
                                     abstract_elem=s['head_abstract'])
            yield elem_xml('head', 't:' + m['type'], None, mkids), ok2, tags2 | {'head'}


def classify(tags, direction):
    if 'transitive' in tags and direction == 'false-reject' and 'intermediate-blocks-substitution' in tags:
        return 'false-reject:transitive-substitute:intermediate-member-blocks-substitution'
    if direction == 'false-accept' and 'substitution-blocked-only-by-an-intermediate-type' in tags:
        return 'false-accept:substitute:blocked-only-by-an-intermediate-type'
    key = sorted(t for t in tags if t not in ('xsi:type', 'abstract-intermediate', 'intermediate-blocks-substitution'))
    return f'{direction}:{"+".join(key) or "plain-xsi-type"}'


def run_hier(spec, res):
    xmlschema = env.activate_repo()
    from lxml import etree
    rng = env.rng_for(PROPERTY, spec['tier'], spec['seed'], spec['hshard'])
    for n in range(spec['n']):
        h = gen_hierarchy(rng)
        text = schema_text(h)
        schemas = {}
        for version, cls in (('1.0', xmlschema.XMLSchema10), ('1.1', xmlschema.XMLSchema11)):
            try:
                schemas[version] = cls(text)
            except xmlschema.XMLSchemaException as e:
                res.count(f'hierarchy_refused:{version}')
                if len(res.notes) < 3:
                    res.notes.append(f'refused {version}: {str(e)[:200]}')
        try:
            arb = etree.XMLSchema(etree.fromstring(text.encode()))
        except etree.XMLSchemaParseError:
            arb = None
            res.count('arbiter_refused_hierarchy')
        if not schemas:
            continue
        for xml, want, tags in variants_for(h, rng, spec['tier']):
            doc = wrap(xml)
            for version, schema in schemas.items():
                res.evaluations += 1
                if tags:
                    res.nontrivial.add(env.h8((text, xml)))
                try:
                    got = schema.is_valid(doc)
                except xmlschema.XMLSchemaException as e:
                    res.violation(f'is_valid-raised:{type(e).__name__}', {'schema': text, 'doc': doc, 'version': version}, str(e)[:200])
                    continue
                res.count(f'{version}:expected_{"valid" if want else "invalid"}')
                if got == want:
                    res.count('agree')
                    for t in tags:
                        res.count('rule:' + t)
                    continue
                arb_valid = None
                if arb is not None and version == '1.0':
                    arb_valid = bool(arb.validate(etree.fromstring(doc.encode())))
                if arb_valid is not None and arb_valid == got:
                    res.count('disputed_by_arbiter')
                    res.inconclusive_case('arbiter sides with library', [sorted(tags), xml[:200]])
                    continue
                direction = 'false-accept' if got else 'false-reject'
                res.violation(classify(tags, direction), {'schema': text, 'doc': doc, 'version': version},
                              f'{version} {direction}: {xml[:200]} tags {sorted(tags)} libxml2={arb_valid}')
        if len(res.samples) < 2:
            res.sample({'types': {k: [v['base'], v['method'], v['abstract'], v['block']] for k, v in h['types'].items()},
                        'block_default': h['block_default'], 'elements': h['elements'], 'subst': h['subst']})


# ---------------------------------------------------------------------------------------------
def run_alt(spec, res):
    """XSD 1.1 type alternatives: the first alternative whose test holds selects the governing type."""
    xmlschema = env.activate_repo()
    rng = env.rng_for(PROPERTY, spec['tier'], spec['seed'], 'alt')
    for n in range(spec['n']):
        tests = rng.sample(["@k='a'", "@k='b'", "@k='a' or @k='c'", "@n > 5", "not(@k)", "@k"], rng.randint(1, 3))
        targets = [rng.choice(('t:Num', 't:Txt', 'xs:error')) for _ in tests]
        default = rng.choice((None, 't:Num', 't:Txt', 'xs:error'))
        alts = ''.join(f'<xs:alternative test="{t}" type="{ty}"/>' for t, ty in zip(tests, targets))
        if default:
            alts += f'<xs:alternative type="{default}"/>'
        text = (f'<xs:schema xmlns:xs="{XS}" targetNamespace="{TNS}" xmlns:t="{TNS}" elementFormDefault="qualified">'
                '<xs:complexType name="Base"><xs:simpleContent><xs:extension base="xs:string">'
                '<xs:attribute name="k" type="xs:string"/><xs:attribute name="n" type="xs:int"/></xs:extension></xs:simpleContent></xs:complexType>'
                '<xs:complexType name="Num"><xs:simpleContent><xs:restriction base="t:Base"><xs:pattern value="[0-9]+"/></xs:restriction></xs:simpleContent></xs:complexType>'
                '<xs:complexType name="Txt"><xs:simpleContent><xs:restriction base="t:Base"><xs:pattern value="[a-z]+"/></xs:restriction></xs:simpleContent></xs:complexType>'
                f'<xs:element name="root"><xs:complexType><xs:sequence><xs:element name="v" type="t:Base" maxOccurs="unbounded">{alts}</xs:element>'
                '</xs:sequence></xs:complexType></xs:element></xs:schema>')
        try:
            schema = xmlschema.XMLSchema11(text)
        except xmlschema.XMLSchemaException as e:
            res.count('alt_schema_refused')
            continue
        for k in (None, 'a', 'b', 'c', 'z'):
            for nval in (None, '3', '7'):
                for body in ('123', 'abc', 'A1'):
                    attrs = (f' k="{k}"' if k else '') + (f' n="{nval}"' if nval else '')
                    doc = f'<t:root xmlns:t="{TNS}"><t:v{attrs}>{body}</t:v></t:root>'

                    def holds(t):
                        if t == "@k='a'":
                            return k == 'a'
                        if t == "@k='b'":
                            return k == 'b'
                        if t == "@k='a' or @k='c'":
                            return k in ('a', 'c')
                        if t == "@n > 5":
                            return nval is not None and int(nval) > 5
                        if t == 'not(@k)':
                            return k is None
                        return k is not None
                    chosen = None
                    idx = None
                    for i, (t, ty) in enumerate(zip(tests, targets)):
                        if holds(t):
                            chosen, idx = ty, i
                            break
                    if chosen is None:
                        chosen = default or 't:Base'
                    if chosen == 'xs:error':
                        want = False
                    elif chosen == 't:Num':
                        want = body.isdigit()
                    elif chosen == 't:Txt':
                        want = body.isalpha() and body.islower()
                    else:
                        want = True
                    res.evaluations += 1
                    res.nontrivial.add(env.h8((text, doc)))
                    got = schema.is_valid(doc)
                    res.count('alt:expected_' + ('valid' if want else 'invalid'))
                    if got != want:
                        res.violation(f'alternative:{"false-accept" if got else "false-reject"}:chosen={chosen}:index={idx}',
                                      {'schema': text, 'doc': doc, 'version': '1.1'},
                                      f'tests {tests} -> {targets} default {default}: {doc[40:]} expected {want} (alternative {idx}: {chosen})')
                    else:
                        res.count('agree')
                        res.count('rule:alternative')


# ---------------------------------------------------------------------------------------------
# xsi:type over simple types, unions, lists and complex types with simple content (exhaustive small catalogue)
SIMPLE_XSD = f'''<xs:schema xmlns:xs="{XS}" targetNamespace="{TNS}" xmlns:t="{TNS}" elementFormDefault="qualified">
  <xs:simpleType name="Small"><xs:restriction base="xs:int"><xs:maxInclusive value="9"/></xs:restriction></xs:simpleType>
  <xs:simpleType name="Tiny"><xs:restriction base="t:Small"><xs:maxInclusive value="3"/></xs:restriction></xs:simpleType>
  <xs:simpleType name="U"><xs:union memberTypes="t:Small xs:boolean"/></xs:simpleType>
  <xs:simpleType name="UR"><xs:restriction base="t:U"><xs:enumeration value="1"/><xs:enumeration value="true"/></xs:restriction></xs:simpleType>
  <xs:simpleType name="L"><xs:list itemType="xs:int"/></xs:simpleType>
  <xs:simpleType name="L2"><xs:restriction base="t:L"><xs:maxLength value="2"/></xs:restriction></xs:simpleType>
  <xs:complexType name="SC"><xs:simpleContent><xs:extension base="xs:decimal"><xs:attribute name="unit" type="xs:string"/></xs:extension></xs:simpleContent></xs:complexType>
  <xs:complexType name="SCR"><xs:simpleContent><xs:restriction base="t:SC"><xs:maxInclusive value="100"/></xs:restriction></xs:simpleContent></xs:complexType>
  <xs:complexType name="SCE"><xs:simpleContent><xs:extension base="t:SC"><xs:attribute name="extra" type="xs:int"/></xs:extension></xs:simpleContent></xs:complexType>
  <xs:complexType name="Other"><xs:sequence><xs:element name="x" type="xs:string" minOccurs="0"/></xs:sequence></xs:complexType>
  <xs:element name="r"><xs:complexType><xs:choice maxOccurs="unbounded">
    <xs:element name="e_int" type="xs:int"/><xs:element name="e_small" type="t:Small"/><xs:element name="e_u" type="t:U"/>
    <xs:element name="e_l" type="t:L"/><xs:element name="e_dec" type="xs:decimal"/>
    <xs:element name="e_dec_bx" type="xs:decimal" block="extension"/><xs:element name="e_dec_br" type="xs:decimal" block="restriction"/>
    <xs:element name="e_sc" type="t:SC"/><xs:element name="e_sc_br" type="t:SC" block="restriction"/>
    <xs:element name="e_any" type="xs:anyType"/><xs:element name="e_anys" type="xs:anySimpleType"/>
  </xs:choice></xs:complexType></xs:element>
</xs:schema>'''

# type -> (base, derivation step from the base, is complex)
SIMPLE_TYPES = {
    'xs:anyType': (None, None, True), 'xs:anySimpleType': ('xs:anyType', 'restriction', False),
    'xs:decimal': ('xs:anySimpleType', 'restriction', False), 'xs:integer': ('xs:decimal', 'restriction', False),
    'xs:long': ('xs:integer', 'restriction', False), 'xs:int': ('xs:long', 'restriction', False),
    'xs:boolean': ('xs:anySimpleType', 'restriction', False), 'xs:string': ('xs:anySimpleType', 'restriction', False),
    't:Small': ('xs:int', 'restriction', False), 't:Tiny': ('t:Small', 'restriction', False),
    't:U': ('xs:anySimpleType', 'restriction', False), 't:UR': ('t:U', 'restriction', False),
    't:L': ('xs:anySimpleType', 'restriction', False), 't:L2': ('t:L', 'restriction', False),
    't:SC': ('xs:decimal', 'extension', True), 't:SCR': ('t:SC', 'restriction', True), 't:SCE': ('t:SC', 'extension', True),
    't:Other': ('xs:anyType', 'restriction', True),
}
UNION_MEMBERS = {'t:U': ('t:Small', 'xs:boolean')}
SIMPLE_ELEMENTS = {'e_int': ('xs:int', ''), 'e_small': ('t:Small', ''), 'e_u': ('t:U', ''), 'e_l': ('t:L', ''), 'e_dec': ('xs:decimal', ''),
                   'e_dec_bx': ('xs:decimal', 'extension'), 'e_dec_br': ('xs:decimal', 'restriction'), 'e_sc': ('t:SC', ''),
                   'e_sc_br': ('t:SC', 'restriction'), 'e_any': ('xs:anyType', ''), 'e_anys': ('xs:anySimpleType', '')}
SIMPLE_TEXTS = ('2', '7', '12', '150', 'true', '1 2', '1 2 3', '2.5', 'abc', '')


def simple_steps(d, b):
    """The derivation steps from b down to d (set of methods) or None if d is not derived from b; a union base admits
    what is validly derived from one of its members."""
    steps = set()
    t = d
    while t is not None:
        if t == b:
            return steps
        if b in UNION_MEMBERS and t in UNION_MEMBERS[b]:
            return steps | {'restriction'}
        base, method, _ = SIMPLE_TYPES[t]
        steps.add(method)
        t = base
    return None


def simple_text_ok(t, text):
    import re
    v = ' '.join(text.split())
    integer = bool(re.fullmatch(r'[+-]?[0-9]+', v))
    if t in ('xs:anyType', 'xs:anySimpleType', 'xs:string'):
        return True
    if t == 't:Other':
        return v == ''
    if t in ('xs:decimal', 't:SC', 't:SCE'):
        return bool(re.fullmatch(r'[+-]?([0-9]+(\.[0-9]*)?|\.[0-9]+)', v))
    if t == 't:SCR':
        return simple_text_ok('xs:decimal', text) and float(v) <= 100
    if t in ('xs:integer', 'xs:long', 'xs:int'):
        return integer
    if t == 't:Small':
        return integer and int(v) <= 9
    if t == 't:Tiny':
        return integer and int(v) <= 3
    if t == 'xs:boolean':
        return v in ('true', 'false', '0', '1')
    if t == 't:U':
        return simple_text_ok('t:Small', text) or simple_text_ok('xs:boolean', text)
    if t == 't:UR':
        return v in ('1', 'true')
    if t in ('t:L', 't:L2'):
        items = v.split()
        return all(re.fullmatch(r'[+-]?[0-9]+', i) for i in items) and (t == 't:L' or len(items) <= 2)
    raise ValueError(t)


TYPELESS_XSD = f'''<xs:schema xmlns:xs="{XS}">
<xs:complexType name="CT"><xs:sequence><xs:element name="a" minOccurs="0"/></xs:sequence><xs:attribute name="k" type="xs:int"/></xs:complexType>
<xs:element name="hs" type="xs:int"/><xs:element name="ms" substitutionGroup="hs"/>
<xs:element name="hc" type="CT"/><xs:element name="mc" substitutionGroup="hc"/>
<xs:element name="hu"/><xs:element name="mu" substitutionGroup="hu"/>
<xs:element name="r"><xs:complexType><xs:choice maxOccurs="unbounded"><xs:element ref="hs"/><xs:element ref="hc"/><xs:element ref="hu"/>
</xs:choice></xs:complexType></xs:element></xs:schema>'''
# a member without a type takes the head's type: content *and* attribute set
TYPELESS_CASES = [('<ms>1</ms>', True), ('<ms>x</ms>', False), ('<ms foo="1">1</ms>', False), ('<hs foo="1">1</hs>', False),
                  ('<mc k="1"><a/></mc>', True), ('<mc foo="1"/>', False), ('<mc k="x"/>', False), ('<mc><b/></mc>', False),
                  ('<mu foo="1"><b/>text</mu>', True), ('<hu foo="1"><b/></hu>', True)]


def run_typeless(res, xmlschema):
    from lxml import etree
    arb = etree.XMLSchema(etree.fromstring(TYPELESS_XSD.encode()))
    for version, cls in (('1.0', xmlschema.XMLSchema10), ('1.1', xmlschema.XMLSchema11)):
        schema = cls(TYPELESS_XSD)
        for body, want in TYPELESS_CASES:
            doc = f'<r>{body}</r>'
            got = schema.is_valid(doc)
            res.evaluations += 1
            res.nontrivial.add(env.h8(('typeless', version, body)))
            res.count('typeless_member:compared')
            if got != want:
                arb_valid = bool(arb.validate(etree.fromstring(doc.encode())))
                if arb_valid == got:
                    res.inconclusive_case('arbiter sides with library', doc)
                    continue
                res.violation(f'{"false-accept" if got else "false-reject"}:substitution-member-without-type',
                              {'doc': doc, 'version': version, 'typeless': True},
                              f'{version}: {doc}: library valid={got}, the member takes its head\'s type: expected {want} (libxml2 {arb_valid})')


def run_simple(spec, res):
    xmlschema = env.activate_repo()
    run_typeless(res, xmlschema)
    from lxml import etree
    arb = etree.XMLSchema(etree.fromstring(SIMPLE_XSD.encode()))
    for version, cls in (('1.0', xmlschema.XMLSchema10), ('1.1', xmlschema.XMLSchema11)):
        schema = cls(SIMPLE_XSD)
        for ename, (decl, block) in SIMPLE_ELEMENTS.items():
            for xt in [None] + list(SIMPLE_TYPES):
                for text in SIMPLE_TEXTS:
                    gov = xt or decl
                    tags = set()
                    if xt is None:
                        want = simple_text_ok(decl, text)
                    else:
                        steps = simple_steps(xt, decl)
                        tags.add('simple-xsi:type')
                        if steps is None:
                            want = False
                            tags.add('not-derived')
                        elif steps & set(block.split()):
                            want = False
                            tags.add('blocked')
                        else:
                            want = simple_text_ok(gov, text)
                            if decl in UNION_MEMBERS:
                                tags.add('union-member')
                            if SIMPLE_TYPES[gov][2] and not SIMPLE_TYPES[decl][2]:
                                tags.add('complex-for-simple')
                    attr = f' xsi:type="{xt}"' if xt else ''
                    doc = (f'<t:r xmlns:t="{TNS}" xmlns:xs="{XS}" xmlns:xsi="{XSI}"><t:{ename}{attr}>{text}</t:{ename}></t:r>')
                    res.evaluations += 1
                    if xt:
                        res.nontrivial.add(env.h8((version, ename, xt, text)))
                    try:
                        got = schema.is_valid(doc)
                    except xmlschema.XMLSchemaException as e:
                        res.violation(f'is_valid-raised:{type(e).__name__}', {'schema': SIMPLE_XSD, 'doc': doc, 'version': version}, str(e)[:200])
                        continue
                    if got == want:
                        res.count('agree')
                        res.count('simple:agree')
                        for t in tags:
                            res.count('rule:' + t)
                        continue
                    arb_valid = bool(arb.validate(etree.fromstring(doc.encode())))
                    if version == '1.0' and arb_valid == got:
                        res.count('disputed_by_arbiter')
                        res.inconclusive_case('arbiter sides with library', [ename, xt, text])
                        continue
                    direction = 'false-accept' if got else 'false-reject'
                    res.violation(f'simple:{direction}:{"+".join(sorted(tags)) or "declared-type"}', {'schema': SIMPLE_XSD, 'doc': doc, 'version': version},
                                  f'{version} {direction}: <{ename} xsi:type={xt}>{text!r} declared {decl} block={block!r} libxml2={arb_valid}')


def run_shard(spec, res):
    {'hier': run_hier, 'alt': run_alt, 'simple': run_simple}[spec['kind']](spec, res)


def finalize(res, tier):
    c = res.counters
    reasons = []
    for r in ('rule:xsi:type', 'rule:nil', 'rule:substitute', 'rule:blocked', 'rule:abstract-type', 'rule:alternative', 'rule:fixed'):
        if not c.get(r):
            reasons.append(f'rule tally {r} is empty')
    total = c.get('agree', 0) + 1
    if c.get('disputed_by_arbiter', 0) > 0.02 * total:
        reasons.append('disputed fraction above 2%: the reference needs repair')
    return {'inconclusive': reasons}


def replay(case):
    xmlschema = env.activate_repo()
    from lxml import etree
    cls = xmlschema.XMLSchema11 if case['version'] == '1.1' else xmlschema.XMLSchema10
    s = cls(case['schema'])
    print(case['schema'])
    print(case['doc'])
    print('library errors', [e.reason for e in s.iter_errors(case['doc'])])
    try:
        print('libxml2 valid', etree.XMLSchema(etree.fromstring(case['schema'].encode())).validate(etree.fromstring(case['doc'].encode())))
    except etree.XMLSchemaParseError as e:
        print('libxml2 refuses the schema', str(e)[:100])
    return True
