"""C08 - identity constraints: ID/IDREF and unique/key/keyref are enforced exactly."""
import itertools
from decimal import Decimal

from vk import env

PROPERTY = 'C08'
LEVEL = 'exploration'
RULE = ('constraint templates: 1-2 fields on attributes / child elements / mixed, field types {integer, decimal, boolean, '
        'string, date, QName}, constraint kinds key / unique with a keyref, flat scope and nested scope (constraint declared '
        'on an inner element that occurs several times), keyref referring to a key on the same element; tables: all tables '
        'with <= 2 key rows and <= 1 reference row over a 3-value pool per field with {present, absent} per field '
        '(exhaustive) + seeded tables with up to 8 rows using lexical variants of equal values (1, 01, +1; 1.0, 1; true, 1; '
        'p1:x, p2:x), duplicates and missing fields; ID / IDREF / IDREFS sets; the document is generated from the table so '
        'the reference knows selected nodes and field tuples without any XPath; libxml2 arbitrates; a case = (template, '
        'table); distinct non-trivial = distinct (template, canonical table) with at least one duplicate, missing field or '
        'dangling reference')
RULE += (' ' + 'Shard recursive: a key and keyref declared on an element that contains itself, every instance a scope of its own. The ID / IDREF shard also puts xs:ID, xs:IDREF and xs:IDREFS in element content, with forward references; XSD 1.0 binds such an ID to the element, XSD 1.1 to its parent.')
ASSUMPTIONS = [
    'qualified node set = selected nodes for which every field evaluates to a value; incomplete unique / keyref tuples are not errors, an incomplete key tuple is',
    'values are compared in the value space of the declared field type (1 = 01 = +1, 1.0 = 1, true = 1)',
    'libxml2 (lxml) is an arbiter: a disagreement where libxml2 sides with the library is counted as disputed, not as a violation',
    'one ID attribute per element (XSD 1.0 / 1.1 differences on multiple IDs are outside the generated shapes)',
]
ANCHORS = {
    'xmlschema/validators/identities.py': [(385, 418), (461, 544)],
    'xmlschema/validators/elements.py': [(637, 641), (853, 864), (868, 918)],
    'xmlschema/validators/simple_types.py': [(742, 783)],
    'xmlschema/validators/schemas.py': [(1393, 1405)],
}
SHARD_TIMEOUT = {'quick': 900, 'thorough': 3600}
LEVEL_TEXT = ('Runtime monitoring with a reference-model oracle: documents are generated from tables of field tuples, so an '
              'independent 60-line model computes duplicates, missing key fields and dangling references per scope in value '
              'space; the real validators\' verdict and error kinds are compared with it, libxml2 acting as arbiter.')
LEVEL_NOTE = 'Trusted: the table->document generator, the value-space functions of the reference, libxml2 as a tie-breaker.'
TECHNIQUE = 'runtime monitoring: reference-model oracle (table-generated documents) with libxml2 arbiter'

XS = 'http://www.w3.org/2001/XMLSchema'
TNS = 'urn:vk:id'
TYPES = {
    # the types below collapse whitespace: a padded lexical form denotes the same value
    'integer': (['1', '2', '3'], ['01', '+1', '1', '2', '02', '3', ' 1 ', '2  '], lambda s: int(s.strip())),
    'decimal': (['1.0', '2.5', '3'], ['1', '1.0', '01.00', '2.5', '2.50', '3', ' 1.0', '2.5 '], lambda s: Decimal(s.strip())),
    'boolean': (['true', 'false', '1'], ['true', '1', 'false', '0', ' true ', ' 0'], lambda s: s.strip() in ('true', '1')),
    'string': (['a', 'b', 'c'], ['a', 'b', 'c', 'A', ' a'], lambda s: s),
    'date': (['2020-01-01', '2020-01-02', '2021-01-01'], ['2020-01-01', '2020-01-02', '2021-01-01', ' 2020-01-01 '], lambda s: s.strip()),
    'double': (['1.0', '2.5', '3'], ['1', '1.0', '1e0', '10E-1', '2.5', '25e-1', '3', ' 3 ', '0.3E1', 'INF'], lambda s: float(s.strip())),
    'QName': (['p1:x', 'p1:y', 'p3:x'], ['p1:x', 'p2:x', 'p1:y', 'p3:x', 'p2:y', ' p1:x ', 'p2:y  ', '  p3:x'], None),
}
QNS = {'p1': 'urn:q:1', 'p2': 'urn:q:1', 'p3': 'urn:q:3'}
FIELD_DEFAULT = '2'


def effective(fields, row):
    """The row as the assessed infoset has it: defaults filled in for absent attributes / empty elements."""
    out = []
    for (where, typ), v in zip(fields, row):
        if where == 'attrdef' and v is None or where == 'elemdef' and v == '':
            v = FIELD_DEFAULT
        out.append(v)
    return tuple(out)


def value_of(typ, lexical):
    if typ == 'QName':
        pf, ln = lexical.strip().split(':')
        return (QNS[pf], ln)
    return TYPES[typ][2](lexical)


def templates():
    """(name, kind, fields [(where, type)], nested)"""
    out = []
    for kind in ('key', 'unique'):
        for typ in TYPES:
            out.append((f'{kind}-1attr-{typ}', kind, [('attr', typ)], False))
        out.append((f'{kind}-1elem-integer', kind, [('elem', 'integer')], False))
        out.append((f'{kind}-2mixed-int-str', kind, [('attr', 'integer'), ('elem', 'string')], False))
        out.append((f'{kind}-2attr-dec-bool', kind, [('attr', 'decimal'), ('attr', 'boolean')], False))
        # fields with a default value: an absent attribute / an empty element carries the default in the assessed infoset
        out.append((f'{kind}-1attrdef-integer', kind, [('attrdef', 'integer')], False))
        out.append((f'{kind}-1elemdef-integer', kind, [('elemdef', 'integer')], False))
        out.append((f'{kind}-nested-1attr-integer', kind, [('attr', 'integer')], True))
        out.append((f'{kind}-nested-2mixed-int-str', kind, [('attr', 'integer'), ('elem', 'string')], True))
    return out


def schema_text(tpl):
    name, kind, fields, nested = tpl
    attrs_row = ''
    elems_row = ''
    fpaths_row = []
    fpaths_ref = []
    for i, (where, typ) in enumerate(fields):
        if where in ('attr', 'attrdef'):
            dflt = f' default="{FIELD_DEFAULT}"' if where == 'attrdef' else ''
            attrs_row += f'<xs:attribute name="f{i}" type="xs:{typ}"{dflt}/>'
            fpaths_row.append(f'@f{i}')
            fpaths_ref.append(f'@f{i}')
        else:
            dflt = f' default="{FIELD_DEFAULT}"' if where == 'elemdef' else ''
            elems_row += f'<xs:element name="f{i}" type="xs:{typ}"{dflt} minOccurs="0"/>'
            fpaths_row.append(f't:f{i}')
            fpaths_ref.append(f't:f{i}')
    rowtype = f'<xs:complexType name="Row"><xs:sequence>{elems_row}</xs:sequence>{attrs_row}</xs:complexType>'
    cons = (f'<xs:{kind} name="K"><xs:selector xpath="t:row"/>' + ''.join(f'<xs:field xpath="{p}"/>' for p in fpaths_row) + f'</xs:{kind}>'
            f'<xs:keyref name="R" refer="t:K"><xs:selector xpath="t:ref"/>' + ''.join(f'<xs:field xpath="{p}"/>' for p in fpaths_ref) + '</xs:keyref>')
    scope_content = ('<xs:complexType><xs:sequence><xs:element name="row" type="t:Row" minOccurs="0" maxOccurs="unbounded"/>'
                     '<xs:element name="ref" type="t:Row" minOccurs="0" maxOccurs="unbounded"/></xs:sequence></xs:complexType>')
    if nested:
        body = (f'<xs:element name="db"><xs:complexType><xs:sequence><xs:element name="grp" maxOccurs="unbounded">'
                f'{scope_content}{cons}</xs:element></xs:sequence></xs:complexType></xs:element>')
    else:
        body = f'<xs:element name="db">{scope_content}{cons}</xs:element>'
    return (f'<xs:schema xmlns:xs="{XS}" targetNamespace="{TNS}" xmlns:t="{TNS}" elementFormDefault="qualified">'
            f'{rowtype}{body}</xs:schema>')


def render_rows(tag, rows, fields):
    out = ''
    for row in rows:
        attrs = ''
        kids = ''
        for i, ((where, typ), v) in enumerate(zip(fields, row)):
            if v is None:
                continue
            if where in ('attr', 'attrdef'):
                attrs += f' f{i}="{v}"'
            else:
                kids += f'<t:f{i}>{v}</t:f{i}>'
        out += f'<t:{tag}{attrs}>{kids}</t:{tag}>'
    return out


def document(tpl, scopes):
    """scopes: list of (rows, refs); flat templates use exactly one scope."""
    name, kind, fields, nested = tpl
    ns = f'xmlns:t="{TNS}" ' + ' '.join(f'xmlns:{p}="{u}"' for p, u in QNS.items())
    if nested:
        body = ''.join(f'<t:grp>{render_rows("row", rows, fields)}{render_rows("ref", refs, fields)}</t:grp>' for rows, refs in scopes)
    else:
        rows, refs = scopes[0]
        body = render_rows('row', rows, fields) + render_rows('ref', refs, fields)
    return f'<t:db {ns}>{body}</t:db>'


def reference(tpl, scopes):
    """Set of error kinds the recommendation requires: 'duplicate', 'missing-key-field', 'dangling-keyref'."""
    name, kind, fields, nested = tpl
    errors = set()
    for rows, refs in scopes:
        seen = set()
        rows = [effective(fields, r) for r in rows]
        refs = [effective(fields, r) for r in refs]
        for row in rows:
            if any(v is None for v in row):
                if kind == 'key':
                    errors.add('missing-key-field')
                continue
            t = tuple(value_of(typ, v) for (_, typ), v in zip(fields, row))
            t = tuple((type(x).__name__, x) if isinstance(x, bool) else x for x in t)
            if t in seen:
                errors.add('duplicate')
            seen.add(t)
        for ref in refs:
            if any(v is None for v in ref):
                continue
            t = tuple(value_of(typ, v) for (_, typ), v in zip(fields, ref))
            t = tuple((type(x).__name__, x) if isinstance(x, bool) else x for x in t)
            if t not in seen:
                errors.add('dangling-keyref')
    return errors


def lib_kinds(errs):
    kinds = set()
    other = []
    for e in errs:
        r = e.reason or ''
        if 'duplicated value' in r:
            kinds.add('duplicate')
        elif 'missing key field' in r:
            kinds.add('missing-key-field')
        elif 'not found for' in r:
            kinds.add('dangling-keyref')
        else:
            other.append(r[:100])
    return kinds, other


def plan(tier, seed):
    tpls = templates()
    specs = []
    for i in range(len(tpls)):
        specs.append({'kind': 'tables', 'tpl': i, 'random': 60 if tier == 'quick' else 1500,
                      'exhaustive_rows': 2 if tier == 'quick' else 2})
    specs.append({'kind': 'ids', 'n': 300 if tier == 'quick' else 6000})
    specs.append({'kind': 'xsitype', 'n': 150 if tier == 'quick' else 3000})
    specs.append({'kind': 'recursive', 'n': 400 if tier == 'quick' else 6000})
    return specs


def judge(res, xmlschema, schema, arb, tpl, scopes, origin):
    from lxml import etree
    name, kind, fields, nested = tpl
    doc = document(tpl, scopes)
    want = reference(tpl, scopes)
    errs = list(schema.iter_errors(doc))
    got, other = lib_kinds(errs)
    res.evaluations += 1
    interesting = bool(want) or any(v is None for rows, refs in scopes for r in rows + refs for v in r)
    if interesting:
        res.nontrivial.add(env.h8((name, str(scopes))))
    case = {'template': name, 'scopes': scopes, 'doc': doc}
    if other:
        res.inconclusive_case('unexpected non-identity error in generated document', [name, other[:2], doc[:300]])
        return
    res.count(f'{kind}:expected_{"valid" if not want else "invalid"}')
    if got == want:
        res.count('agree')
        if len(res.samples) < 2 and want:
            res.sample({'template': name, 'scopes': scopes, 'expected_errors': sorted(want)})
        return
    # verdict-level arbiter
    lib_valid, ref_valid = not got, not want
    arb_valid = None
    if arb is not None:
        arb_valid = bool(arb.validate(etree.fromstring(doc.encode())))
    if lib_valid != ref_valid and arb_valid is not None and arb_valid == lib_valid:
        res.count('disputed_by_arbiter')
        res.inconclusive_case('arbiter sides with library', [name, scopes])
        return
    spurious = sorted(got - want)
    missed = sorted(want - got)
    incomplete = any(v is None for rows, refs in scopes for r in rows + refs for v in r)
    mech = f'{kind}:' + ('spurious=' + '+'.join(spurious) if spurious else '') + ('missed=' + '+'.join(missed) if missed else '')
    if incomplete:
        mech += ':with-incomplete-tuple'
    types = sorted({t for _, t in fields})
    if missed and not incomplete:
        mech += ':types=' + '+'.join(types)
    res.violation(mech, case, f'{name} ({origin}): library reports {sorted(got)} reference {sorted(want)} libxml2 valid={arb_valid}; scopes {scopes}')


def run_tables(spec, res):
    xmlschema = env.activate_repo()
    from lxml import etree
    tpl = templates()[spec['tpl']]
    name, kind, fields, nested = tpl
    text = schema_text(tpl)
    try:
        arb = etree.XMLSchema(etree.fromstring(text.encode()))
    except etree.XMLSchemaParseError:
        arb = None
    rng = env.rng_for(PROPERTY, spec['tier'], spec['seed'], name)
    for version, cls in (('1.0', xmlschema.XMLSchema10), ('1.1', xmlschema.XMLSchema11)):
        schema = cls(text)
        pools = [TYPES[typ][0] + ([''] if where == 'elemdef' else []) for where, typ in fields]
        cells = [list(itertools.product(*[[None] + p for p in pools]))][0]
        # exhaustive small tables
        for nrows in range(0, spec['exhaustive_rows'] + 1):
            for rows in itertools.product(cells, repeat=nrows):
                for nrefs in (0, 1):
                    for refs in itertools.product(cells, repeat=nrefs):
                        scopes = [(list(rows), list(refs))]
                        if nested:
                            scopes = scopes + [([cells[-1]], [])]   # a second scope with the same values must not interfere
                        if len(cells) > 10 and version == '1.1' and (hash((rows, refs)) % 3):
                            continue   # 2-field templates: thin the 1.1 repetition
                        judge(res, xmlschema, schema, arb if version == '1.0' else None, tpl, scopes, 'exhaustive')
        # seeded larger tables with lexical variants
        vpools = [TYPES[typ][1] + (['', ''] if where == 'elemdef' else []) for where, typ in fields]
        for n in range(spec['random']):
            def cell():
                return tuple(None if rng.random() < 0.12 else rng.choice(p) for p in vpools)
            nsc = rng.randint(1, 3) if nested else 1
            scopes = []
            for _ in range(nsc):
                scopes.append(([cell() for _ in range(rng.randint(0, 6))], [cell() for _ in range(rng.randint(0, 3))]))
            judge(res, xmlschema, schema, arb if version == '1.0' else None, tpl, scopes, 'random')


def run_ids(spec, res):
    xmlschema = env.activate_repo()
    from lxml import etree
    text = (f'<xs:schema xmlns:xs="{XS}"><xs:element name="r"><xs:complexType><xs:sequence>'
            f'<xs:element name="e" minOccurs="0" maxOccurs="unbounded"><xs:complexType><xs:sequence>'
            f'<xs:element name="q" type="xs:IDREF" minOccurs="0" maxOccurs="unbounded"/>'
            f'<xs:element name="i" type="xs:ID" minOccurs="0"/><xs:element name="qs" type="xs:IDREFS" minOccurs="0"/>'
            f'</xs:sequence><xs:attribute name="id" type="xs:ID"/><xs:attribute name="ref" type="xs:IDREF"/>'
            f'<xs:attribute name="refs" type="xs:IDREFS"/></xs:complexType></xs:element>'
            f'</xs:sequence></xs:complexType></xs:element></xs:schema>')
    arb = etree.XMLSchema(etree.fromstring(text.encode()))
    rng = env.rng_for(PROPERTY, spec['tier'], spec['seed'], 'ids')
    names = ['a', 'b', 'c', 'd']
    for version, cls in (('1.0', xmlschema.XMLSchema10), ('1.1', xmlschema.XMLSchema11)):
        schema = cls(text)
        for n in range(spec['n']):
            elems = []
            ids, refs = [], []
            attr_ids, own_child_ids = [], []
            for _ in range(rng.randint(0, 5)):
                a = ''
                if rng.random() < 0.6:
                    v = rng.choice(names)
                    ids.append(v)
                    attr_ids.append((len(elems), v))
                    a += f' id="{rng.choice(("", " "))}{v}"'
                if rng.random() < 0.4:
                    v = rng.choice(names)
                    refs.append(v)
                    a += f' ref="{v}"'
                if rng.random() < 0.3:
                    vs = [rng.choice(names) for _ in range(rng.randint(1, 3))]
                    refs += vs
                    a += f' refs="{" ".join(vs)}"'
                # the same through element content (XSD 1.0 keeps these IDs on another path than attribute IDs)
                kids = ''
                for _ in range(rng.choice((0, 0, 1, 2))):
                    v = rng.choice(names)
                    refs.append(v)
                    kids += f'<q>{v}</q>'
                if rng.random() < 0.4:
                    v = rng.choice(names)
                    ids.append(v)
                    own_child_ids.append((len(elems), v))
                    kids += f'<i>{v}</i>'
                if rng.random() < 0.2:
                    vs = [rng.choice(names) for _ in range(rng.randint(1, 3))]
                    refs += vs
                    kids += f'<qs>{" ".join(vs)}</qs>'
                elems.append(f'<e{a}>{kids}</e>' if kids else f'<e{a}/>')
            doc = '<r>' + ''.join(elems) + '</r>'
            want = set()
            # an ID value must be bound to one element only. XSD 1.0 binds an ID in element content to that element, XSD 1.1
            # to its parent: there <e id="x"><i>x</i></e> binds x to e twice, which is no duplicate
            ndup = len(ids) - len(set(ids))
            if version == '1.1':
                ndup -= sum(1 for pair in own_child_ids if pair in attr_ids and ids.count(pair[1]) == 2)
            if ndup > 0:
                want.add('duplicate-id')
            if any(r not in ids for r in refs):
                want.add('dangling-idref')
            errs = list(schema.iter_errors(doc))
            got = set()
            for e in errs:
                r = e.reason or ''
                if 'duplicated xs:ID' in r:
                    got.add('duplicate-id')
                elif 'IDREF' in r and 'not found' in r:
                    got.add('dangling-idref')
                else:
                    got.add('other:' + r[:60])
            res.evaluations += 1
            if want:
                res.nontrivial.add(env.h8(doc))
            res.count('ids:expected_' + ('invalid' if want else 'valid'))
            if got == want:
                res.count('agree')
                continue
            arb_valid = bool(arb.validate(etree.fromstring(doc.encode())))
            if (not got) != (not want) and arb_valid == (not got):
                res.count('disputed_by_arbiter')
                res.inconclusive_case('arbiter sides with library', doc)
                continue
            res.violation('id-idref:' + 'spurious=' + '+'.join(sorted(got - want)) + ':missed=' + '+'.join(sorted(want - got)),
                          {'doc': doc, 'version': version}, f'{doc}: library {sorted(got)} reference {sorted(want)} libxml2 valid={arb_valid}')


XSITYPE_XSD = f'''<xs:schema xmlns:xs="{XS}" targetNamespace="{TNS}" xmlns:t="{TNS}" elementFormDefault="qualified">
<xs:complexType name="RowB"><xs:sequence/><xs:attribute name="n" type="xs:string"/></xs:complexType>
<xs:complexType name="RowX"><xs:complexContent><xs:extension base="t:RowB"><xs:sequence>
  <xs:element name="sub" type="xs:integer" minOccurs="0"/></xs:sequence></xs:extension></xs:complexContent></xs:complexType>
<xs:element name="db"><xs:complexType><xs:sequence>
  <xs:element name="row" type="t:RowB" minOccurs="0" maxOccurs="unbounded"/>
  <xs:element name="wrap" minOccurs="0" maxOccurs="unbounded"><xs:complexType><xs:sequence>
     <xs:element name="row" type="t:RowB" minOccurs="0" maxOccurs="unbounded"/></xs:sequence></xs:complexType></xs:element>
</xs:sequence></xs:complexType>
<xs:unique name="U1"><xs:selector xpath="t:row/t:sub"/><xs:field xpath="."/></xs:unique>
<xs:unique name="U2"><xs:selector xpath="t:wrap/t:row"/><xs:field xpath="t:sub"/></xs:unique>
</xs:element></xs:schema>'''


def run_xsitype(spec, res):
    """Fields on children that exist only through an xsi:type-derived type, selectors with several steps."""
    xmlschema = env.activate_repo()
    from lxml import etree
    arb = etree.XMLSchema(etree.fromstring(XSITYPE_XSD.encode()))
    rng = env.rng_for(PROPERTY, spec['tier'], spec['seed'], 'xsitype')
    XSI = 'http://www.w3.org/2001/XMLSchema-instance'
    for version, cls in (('1.0', xmlschema.XMLSchema10), ('1.1', xmlschema.XMLSchema11)):
        for n in range(spec['n']):
            schema = cls(XSITYPE_XSD) if n % 25 == 0 else schema   # fresh schema now and then (history-free baseline)
            def row():
                if rng.random() < 0.25:
                    return '<t:row/>', None
                v = rng.choice(('1', '01', '2', '3', '+3'))
                return f'<t:row xsi:type="t:RowX"><t:sub>{v}</t:sub></t:row>', int(v)
            top = [row() for _ in range(rng.randint(0, 4))]
            wraps = [[row() for _ in range(rng.randint(0, 3))] for _ in range(rng.randint(0, 2))]
            doc = (f'<t:db xmlns:t="{TNS}" xmlns:xsi="{XSI}">' + ''.join(r[0] for r in top) +
                   ''.join('<t:wrap>' + ''.join(r[0] for r in w) + '</t:wrap>' for w in wraps) + '</t:db>')
            v1 = [r[1] for r in top if r[1] is not None]
            v2 = [r[1] for w in wraps for r in w if r[1] is not None]
            want = set()
            if len(set(v1)) != len(v1):
                want.add('duplicate:U1')
            if len(set(v2)) != len(v2):
                want.add('duplicate:U2')
            errs = list(schema.iter_errors(doc))
            got = set()
            for e in errs:
                r = e.reason or ''
                if 'duplicated value' in r:
                    got.add('duplicate:U1' if "'t:U1'" in r or 'U1' in r else 'duplicate:U2')
                else:
                    got.add('other:' + r[:50])
            res.evaluations += 1
            if want:
                res.nontrivial.add(env.h8(doc))
            res.count('xsitype:expected_' + ('invalid' if want else 'valid'))
            if got == want:
                res.count('agree')
                continue
            arb_valid = bool(arb.validate(etree.fromstring(doc.encode())))
            if (not got) != (not want) and arb_valid == (not got):
                res.count('disputed_by_arbiter')
                res.inconclusive_case('arbiter sides with library', doc)
                continue
            res.violation('xsi-type-only-field:' + 'spurious=' + '+'.join(sorted(got - want)) + ':missed=' + '+'.join(sorted(want - got)),
                          {'doc': doc, 'version': version, 'xsitype': True},
                          f'{doc[:300]}: library {sorted(got)} reference {sorted(want)} libxml2 valid={arb_valid}')



RECURSIVE_XSD = f'''<xs:schema xmlns:xs="{XS}">
<xs:element name="node"><xs:complexType><xs:sequence>
 <xs:element name="item" minOccurs="0" maxOccurs="unbounded"><xs:complexType><xs:attribute name="k" type="xs:int"/><xs:attribute name="d" type="xs:int"/></xs:complexType></xs:element>
 <xs:element name="ref" minOccurs="0" maxOccurs="unbounded"><xs:complexType><xs:attribute name="to" type="xs:int"/></xs:complexType></xs:element>
 <xs:element ref="node" minOccurs="0" maxOccurs="unbounded"/>
 <xs:element name="tail" minOccurs="0" maxOccurs="unbounded"><xs:complexType><xs:attribute name="k" type="xs:int"/></xs:complexType></xs:element>
</xs:sequence></xs:complexType>
<xs:key name="ku"><xs:selector xpath="item|tail"/><xs:field xpath="@k"/></xs:key>
<xs:keyref name="kr" refer="ku"><xs:selector xpath="ref"/><xs:field xpath="@to"/></xs:keyref>
<xs:unique name="ud"><xs:selector xpath=".//item"/><xs:field xpath="@d"/></xs:unique>
</xs:element></xs:schema>'''


def run_recursive(spec, res):
    """A declaration that contains itself: every instance of `node` is a scope of its own for the key over its direct
    item / tail children and for the keyref of its direct ref children, also while an outer instance is still open."""
    xmlschema = env.activate_repo()
    from lxml import etree
    arb = etree.XMLSchema(etree.fromstring(RECURSIVE_XSD.encode()))
    rng = env.rng_for(PROPERTY, spec['tier'], spec['seed'], 'recursive')
    for version, cls in (('1.0', xmlschema.XMLSchema10), ('1.1', xmlschema.XMLSchema11)):
        schema = cls(RECURSIVE_XSD)
        for n in range(spec['n']):
            want = []

            def node(depth):
                keys = []
                items = [rng.randint(1, 4) for _ in range(rng.randint(0, 3))]
                # @d (values 50..56, apart from the key values): unique among *all* the items below a node, so an item
                # belongs to the scope of every enclosing node
                dvals = [rng.choice((None, None, 50, 51, 52, 53, 54, 55, 56)) for _ in items]
                refs = [rng.randint(1, 5) for _ in range(rng.choice((0, 0, 1, 2)))]
                kids = [node(depth + 1) for _ in range(rng.choice((0, 1, 1, 2)) if depth < 3 else 0)]
                tails = [rng.randint(1, 4) for _ in range(rng.choice((0, 0, 1, 2)))]
                keys = items + tails
                for i, k in enumerate(keys):
                    if k in keys[:i] and keys[:i].count(k) == 1:
                        want.append(f'duplicated value ({k},)')
                for r in refs:
                    if r not in keys:
                        want.append(f'value ({r},) not found')
                below = [d for d in dvals if d is not None] + [d for kid in kids for d in kid[1]]
                for i, d in enumerate(below):
                    if below[:i].count(d) == 1:
                        want.append(f'duplicated value ({d},)')
                text = ('<node>' + ''.join(f'<item k="{k}"' + (f' d="{d}"' if d is not None else '') + '/>' for k, d in zip(items, dvals)) +
                        ''.join(f'<ref to="{r}"/>' for r in refs) + ''.join(kid[0] for kid in kids) +
                        ''.join(f'<tail k="{k}"/>' for k in tails) + '</node>')
                return text, below
            doc = node(0)[0]
            got = []
            for e in schema.iter_errors(doc):
                r = e.reason or ''
                got.append(r.split(' for ')[0] if ' for ' in r else r[:60])
            res.evaluations += 1
            nested_dup = doc.count('<node>') > 1
            res.count('recursive:expected_' + ('invalid' if want else 'valid'))
            if want and nested_dup:
                res.nontrivial.add(env.h8(doc))
            # (a dangling value is reported once per scope, however many references carry it: compared as sets;
            # scopes are not told apart by the reason text, so equal reasons of different scopes fold too)
            if set(got) == set(want):
                res.count('agree')
                continue
            arb_valid = bool(arb.validate(etree.fromstring(doc.encode())))
            if (not got) != (not want) and arb_valid == (not got):
                res.count('disputed_by_arbiter')
                res.inconclusive_case('arbiter sides with library', doc)
                continue
            missed = sorted(set(want) - set(got))
            spurious = sorted(set(got) - set(want))
            res.violation('recursive-scope:' + ('missed' if missed else '') + ('+spurious' if spurious else ''),
                          {'doc': doc, 'version': version, 'recursive': True},
                          f'{doc}: library {sorted(got)} reference {sorted(want)} libxml2 valid={arb_valid}')


def run_shard(spec, res):
    {'tables': run_tables, 'ids': run_ids, 'xsitype': run_xsitype, 'recursive': run_recursive}[spec['kind']](spec, res)


def finalize(res, tier):
    c = res.counters
    reasons = []
    for k in ('key:expected_invalid', 'key:expected_valid', 'unique:expected_invalid', 'unique:expected_valid',
              'ids:expected_invalid', 'ids:expected_valid', 'recursive:expected_invalid', 'recursive:expected_valid'):
        if not c.get(k):
            reasons.append(f'tally {k} is empty')
    total = c.get('agree', 0) + 1
    if c.get('disputed_by_arbiter', 0) > 0.02 * total:
        reasons.append('disputed fraction above 2%: the reference needs repair')
    return {'inconclusive': reasons}


def replay(case):
    xmlschema = env.activate_repo()
    from lxml import etree
    if 'template' in case:
        tpl = [t for t in templates() if t[0] == case['template']][0]
        text = schema_text(tpl)
        scopes = [([tuple(r) for r in rows], [tuple(r) for r in refs]) for rows, refs in case['scopes']]
        doc = document(tpl, scopes)
        want = reference(tpl, scopes)
        got, other = lib_kinds(list(xmlschema.XMLSchema10(text).iter_errors(doc)))
        print(text)
        print(doc)
        print('library', sorted(got), other, 'reference', sorted(want),
              'libxml2 valid', etree.XMLSchema(etree.fromstring(text.encode())).validate(etree.fromstring(doc.encode())))
        return got != want
    print(case)
    return True
