"""C09 - a schema means the same however its declarations are ordered, split or stored."""
import copy
import os
import pickle
import shutil
import tempfile
import urllib.request
from xml.parsers import expat

from vk import env
from vk.gen import docs as D
from vk.paths import clean_reason

PROPERTY = 'C09'
LEVEL = 'exploration'
RULE = ('schemas: every corpus schema that builds without errors (with its corpus instances as probes) and the four generated '
        'families (with generated valid / faulted documents as probes); transformations, applied on source-text spans of the '
        'top-level declarations: seeded permutation of the global declarations, 2-3 way split into xs:include documents with '
        'the same root attributes, re-spelling of every schemaLocation (./x, sub/../x, absolute path, file URL, '
        'percent-encoded), reordering of xs:import elements and of all composition elements (include / import), build() again after clear(), copy.copy, pickle round trip; '
        'three hand-written compositions (imports + include with forward references; XSD 1.1 per-document defaults; one document '
        'included into two namespaces as a chameleon); observations: (kind, qualified name, structural signature) of every global component and (verdict, ordered error reasons, decoded data) of '
        'every probe; a case = (schema, transformation); non-trivial = the schema has at least 3 global declarations or a '
        'composition element; the number of distinct global build orders is measured with a PY_START probe')
RULE += (' ' + 'Re-spellings include absolute paths and file URLs with dot segments; one catalogue document is reached by two include routes.')
ASSUMPTIONS = [
    'transformations cut and paste source text spans, so every declaration keeps its in-element namespace scope',
    'schemas using xs:redefine / xs:override are not permuted or split (order is significant there by definition)',
    'schemas whose original emits errors in lax mode are excluded',
    'error comparison uses ordered reasons with memory addresses stripped',
]
ANCHORS = {
    'xmlschema/validators/builders.py': [(381, 539), (710, 822)],
    'xmlschema/validators/xsd_globals.py': [(210, 239), (454, 578)],
    'xmlschema/loaders.py': [(86, 306)],
    'xmlschema/utils/urls.py': [(205, 277), (311, 341)],
    'xmlschema/validators/xsdbase.py': [(78, 87)],
}
SHARD_TIMEOUT = {'quick': 900, 'thorough': 3600}
LEVEL_TEXT = ('Metamorphic runtime monitoring: each schema is rewritten into equivalent arrangements (permuted, split into '
              'includes, re-spelled locations, rebuilt, copied, pickled) and the real builder / validators must produce the '
              'same global components and the same verdicts, errors and data on probe instances as for the original text.')
LEVEL_NOTE = ('Trusted: the span cutter (expat byte offsets), the probe comparison. The original arrangement is the oracle; '
              'no external reference is involved.')
TECHNIQUE = 'runtime monitoring: metamorphic oracle (equivalent schema arrangements must be observationally equal)'

XS = 'http://www.w3.org/2001/XMLSchema'
PROLOG = ('include', 'import', 'redefine', 'override')
TRANSFORMS = ('permute', 'split2', 'split3', 'respell', 'respell:absolute_dotted', 'respell:file_dotted', 'imports_reordered', 'composition_reordered', 'rebuild', 'copy', 'pickle')


def plan(tier, seed):
    specs = []
    n = 12 if tier == 'quick' else 24
    for s in range(n):
        specs.append({'kind': 'corpus', 'cshard': s, 'cshards': n, 'rounds': 1 if tier == 'quick' else 3})
    for fam in list(D.FAMILIES) + list(D.EXTRA_FAMILIES):
        specs.append({'kind': 'family', 'family': fam, 'rounds': 2 if tier == 'quick' else 10})
    for k in range(2 if tier == 'quick' else 8):
        specs.append({'kind': 'compose', 'rounds': 4 if tier == 'quick' else 12, 'part': k})
    return specs


# ---------------------------------------------------------------------------------------------
def top_level_spans(data):
    """[(local name, start, end)] byte spans of the children of the root element, + root start-tag end."""
    spans = []
    state = {'depth': 0, 'start': None, 'name': None, 'root_end': None}
    p = expat.ParserCreate(namespace_separator=' ')
    p.buffer_text = True

    def scan_gt(pos):
        quote = None
        while pos < len(data):
            ch = data[pos:pos + 1]
            if quote:
                if ch == quote:
                    quote = None
            elif ch in (b'"', b"'"):
                quote = ch
            elif ch == b'>':
                return pos + 1
            pos += 1
        raise ValueError('unterminated tag')

    def start(name, attrs):
        state['depth'] += 1
        if state['depth'] == 1:
            state['root_end'] = scan_gt(p.CurrentByteIndex)
        elif state['depth'] == 2:
            state['start'] = p.CurrentByteIndex
            state['name'] = name.split(' ')[-1] if name.startswith(XS + ' ') else None
            tag_end = scan_gt(p.CurrentByteIndex)
            state['empty_end'] = tag_end if data[tag_end - 2:tag_end] == b'/>' else None

    def end(name):
        if state['depth'] == 2:
            stop = state['empty_end'] if state['empty_end'] is not None else scan_gt(p.CurrentByteIndex)
            spans.append((state['name'], state['start'], stop))
        state['depth'] -= 1

    p.StartElementHandler = start
    p.EndElementHandler = end
    p.Parse(data, True)
    return spans, state['root_end']


def rewrite(data, rng, how):
    """Return {filename: bytes} for an equivalent arrangement of a schema document, or None if not applicable."""
    spans, root_end = top_level_spans(data)
    names = [n for n, _, _ in spans]
    if any(n in ('redefine', 'override') for n in names) or any(n is None for n in names):
        return None
    decl = [(n, a, b) for n, a, b in spans if n not in PROLOG and n not in ('annotation', 'defaultOpenContent')]
    if len(decl) < 2:
        return None
    if how == 'permute':
        order = list(range(len(decl)))
        rng.shuffle(order)
        if order == list(range(len(decl))):
            order.reverse()
        out = bytearray()
        pos = 0
        for k, (n, a, b) in enumerate(decl):
            out += data[pos:a]
            src = decl[order[k]]
            out += data[src[1]:src[2]]
            pos = b
        out += data[pos:]
        return {'main': bytes(out)}
    if how in ('split2', 'split3'):
        parts = 2 if how == 'split2' else 3
        assign = [rng.randrange(parts) for _ in decl]
        if len(set(assign)) < 2:
            assign[0] = (assign[1] + 1) % parts
        head = data[:root_end]
        root_close = data[data.rindex(b'</'):]
        files = {}
        main = bytearray(data[:root_end])
        # includes go first, right after the root start tag (before any other composition element is fine)
        for k in range(1, parts):
            main += b'\n<xs:include xmlns:xs="%s" schemaLocation="vkpart%d.xsd"/>' % (XS.encode(), k)
        pos = root_end
        moved = {k: bytearray() for k in range(1, parts)}
        for (n, a, b), part in zip(decl, assign):
            if part == 0:
                main += data[pos:b]
            else:
                main += data[pos:a]
                moved[part] += b'\n' + data[a:b]
            pos = b
        main += data[pos:]
        files['main'] = bytes(main)
        # the parts carry the prolog's imports too (an included document needs its own xs:import elements)
        # ... and the per-document xs:defaultOpenContent, which applies to the types of the document it stands in
        imports = b''.join(b'\n' + data[a:b] for n, a, b in spans if n in ('import', 'defaultOpenContent'))
        for k in range(1, parts):
            files[f'vkpart{k}.xsd'] = head + imports + bytes(moved[k]) + b'\n' + root_close
        return files
    raise ValueError(how)


def respell(data, rng, directory, forced=None):
    """Re-spell every schemaLocation of a schema document that points to an existing relative file."""
    import re
    changed = [False]

    def sub(m):
        loc = m.group(2).decode()
        if '://' in loc or loc.startswith('/') or not os.path.isfile(os.path.join(directory, loc)):
            return m.group(0)
        absolute = os.path.join(directory, loc)
        choice = forced or rng.choice(('dot', 'dotdot', 'absolute', 'file', 'pct', 'absolute_dotted', 'file_dotted'))
        base = os.path.basename(directory.rstrip('/'))
        dotted = os.path.join(os.path.dirname(directory.rstrip('/')), base, '..', base, '.', loc)
        if choice == 'dot':
            new = './' + loc
        elif choice == 'dotdot':
            new = os.path.basename(directory) + '/../' + loc if False else './' + os.path.dirname(loc) + ('/' if os.path.dirname(loc) else '') + './' + os.path.basename(loc)
        elif choice == 'absolute':
            new = absolute
        elif choice == 'absolute_dotted':
            new = dotted
        elif choice == 'file_dotted':
            new = 'file://' + urllib.request.pathname2url(dotted)
        elif choice == 'file':
            new = 'file://' + urllib.request.pathname2url(absolute)
        else:
            b = os.path.basename(loc)
            new = loc[:len(loc) - len(b)] + ''.join('%%%02X' % ord(c) if c.isalpha() and i == 0 else c for i, c in enumerate(b))
        changed[0] = True
        return m.group(1) + new.encode() + m.group(3)

    out = re.sub(rb'(schemaLocation\s*=\s*["\'])([^"\']+)(["\'])', sub, data)
    return out if changed[0] else None


def reorder_imports(data, rng, kinds=('import',)):
    """Another order of the xs:import elements (or, with kinds = import + include, of all composition elements:
    which documents make up the schema does not depend on the order in which they are named)."""
    spans, _ = top_level_spans(data)
    imps = [(a, b) for n, a, b in spans if n in kinds]
    if len(imps) < 2 or len({n for n, _, _ in spans if n in kinds}) < len(kinds):
        return None
    order = list(range(len(imps)))
    rng.shuffle(order)
    if order == list(range(len(imps))):
        order.reverse()
    out = bytearray()
    pos = 0
    for k, (a, b) in enumerate(imps):
        out += data[pos:a]
        s = imps[order[k]]
        out += data[s[0]:s[1]]
        pos = b
    out += data[pos:]
    return bytes(out)


# ---------------------------------------------------------------------------------------------
def _tname(t, depth):
    """A type by name, or the structure of an anonymous type."""
    if t is None:
        return None
    if t.name:
        return t.name
    return ('anonymous', component_sig(t, depth + 1))


def _facets(t):
    out = []
    for k, f in sorted((str(k), f) for k, f in getattr(t, 'facets', {}).items()):
        v = getattr(f, 'value', None)
        if v is None and hasattr(f, 'enumeration'):
            v = [repr(x) for x in f.enumeration]
        if hasattr(f, 'regexps'):
            v = list(f.regexps)
        out.append((k.rsplit('}', 1)[-1], repr(v)[:200]))
    return tuple(out)


def _attributes(group, depth):
    out = []
    for k, a in group.items():
        if k is None:
            out.append(('anyAttribute', tuple(getattr(a, 'namespace', ())), tuple(getattr(a, 'not_namespace', ())), a.process_contents))
        else:
            out.append((k, a.use, _tname(a.type, depth), a.default, a.fixed, bool(getattr(a, 'inheritable', False))))
    return tuple(sorted(out, key=repr))


def _particle(p, depth):
    kind = type(p).__name__.replace('Xsd11', 'Xsd')
    occ = (p.min_occurs, p.max_occurs)
    if hasattr(p, 'model') and hasattr(p, 'iter_model'):
        if depth > 6:
            return ('group', p.model, occ, '...')
        return ('group', p.model, occ, tuple(_particle(c, depth + 1) for c in p))
    if hasattr(p, 'process_contents'):
        return ('any', tuple(getattr(p, 'namespace', ())), tuple(getattr(p, 'not_namespace', ())), p.process_contents, occ)
    return (kind, p.name, occ, _tname(p.type, depth) if p.ref is None else ('ref', p.ref.name), p.nillable, p.default, p.fixed,
            tuple(sorted(i.name for i in p.identities)))


def component_sig(c, depth=0):
    """Observable structure of a component through the public component API (names stop the recursion)."""
    kind = type(c).__name__.replace('Xsd11', 'Xsd')
    if depth > 6:
        return (kind, '...')
    try:
        if kind == 'XsdComplexType':
            content = _particle(c.content, depth) if hasattr(c.content, 'iter_model') else ('simple', _tname(c.content, depth))
            oc = getattr(c, 'open_content', None)
            return (kind, c.mixed, c.abstract, c.derivation, c.base_type.name if c.base_type is not None else None,
                    _attributes(c.attributes, depth), content,
                    (oc.mode, tuple(oc.any_element.namespace) if oc.any_element is not None else None) if oc is not None else None,
                    tuple(sorted(c.block or ())) if not isinstance(c.block, str) else c.block)
        if kind == 'XsdElement':
            return (kind,) + _particle(c, depth)[3:] + (c.abstract, c.substitution_group, str(c.block), str(c.final))
        if kind == 'XsdAttribute':
            return (kind, c.use, _tname(c.type, depth), c.default, c.fixed)
        if kind == 'XsdAttributeGroup':
            return (kind, _attributes(c, depth))
        if kind == 'XsdGroup':
            return (kind, _particle(c, depth))
        if hasattr(c, 'facets'):
            members = tuple(_tname(m, depth) for m in getattr(c, 'member_types', ()) or ())
            item = _tname(getattr(c, 'item_type', None), depth) if hasattr(c, 'item_type') else None
            return (kind, c.base_type.name if getattr(c, 'base_type', None) is not None else None, _facets(c), members, item)
    except RecursionError:
        raise
    except Exception as e:   # a component that cannot be described is described by that fact
        return (kind, 'undescribable', type(e).__name__)
    return (kind,)


def globals_sig(schema):
    """Global components of the whole schema composition (all documents) with their structure, W3C namespaces excluded."""
    out = []
    for c in schema.maps.iter_globals():
        if isinstance(c, tuple):
            continue
        name = c.name or ''
        if name.startswith('{http://www.w3.org/'):
            continue
        out.append((type(c).__name__.replace('Xsd11', 'Xsd'), name, repr(component_sig(c))))
    return sorted(out)


def probe(xmlschema, schema, source):
    try:
        errs = [clean_reason(e.reason) for e in schema.iter_errors(source)]
        data = repr(schema.decode(source, validation='lax')[0])
        return ('ok', errs, data)
    except xmlschema.XMLSchemaException as e:
        return ('exc', type(e).__name__, clean_reason(str(e))[:200])


def observe(xmlschema, schema, probes):
    return globals_sig(schema), [probe(xmlschema, schema, p) for p in probes]


def check_schema(res, xmlschema, cls, src_path, probes, rng, label, version, rounds, order_probe):
    """src_path: schema file inside a scratch copy of its directory."""
    directory = os.path.dirname(src_path)
    with open(src_path, 'rb') as f:
        data = f.read()
    try:
        order_probe.begin()
        base_schema = cls(src_path)
        order_probe.end(res)
    except xmlschema.XMLSchemaException:
        res.count('schema:original_does_not_build')
        return
    if base_schema.all_errors:
        res.count('schema:original_has_errors')
        return
    base = observe(xmlschema, base_schema, probes)
    nglobals = len(base[0])
    for rnd in range(rounds):
        for how in TRANSFORMS:
            case = {'schema': label, 'version': version, 'transform': how, 'seed_note': [rnd]}
            alt_path = src_path    # the arrangement replaces the original file (other documents may refer back to it)
            try:
                if how in ('permute', 'split2', 'split3'):
                    files = rewrite(data, rng, how)
                    if files is None:
                        res.count(f'skip:{how}:not_applicable')
                        continue
                    for name, content in files.items():
                        with open(alt_path if name == 'main' else os.path.join(directory, name), 'wb') as f:
                            f.write(content)
                    case['files'] = {k: v.decode('utf-8', 'replace')[:20000] for k, v in files.items()}
                    order_probe.begin()
                    alt = cls(alt_path)
                    order_probe.end(res)
                elif how.startswith('respell'):
                    new = respell(data, rng, directory, how.partition(':')[2] or None)
                    if new is None:
                        res.count(f'skip:{how}:not_applicable')
                        continue
                    with open(alt_path, 'wb') as f:
                        f.write(new)
                    case['files'] = {'main': new.decode('utf-8', 'replace')[:20000]}
                    alt = cls(alt_path)
                elif how in ('imports_reordered', 'composition_reordered'):
                    new = reorder_imports(data, rng, ('import',) if how == 'imports_reordered' else ('import', 'include'))
                    if new is None:
                        res.count(f'skip:{how}:not_applicable')
                        continue
                    with open(alt_path, 'wb') as f:
                        f.write(new)
                    case['files'] = {'main': new.decode('utf-8', 'replace')[:20000]}
                    alt = cls(alt_path)
                elif how == 'rebuild':
                    alt = cls(src_path)
                    alt.maps.clear()
                    alt.build()
                elif how == 'copy':
                    # the documented way to get an independent copy: copy the global maps (which copies
                    # every schema document registered in them) and build the copy
                    maps2 = copy.copy(cls(src_path).maps)
                    maps2.build()
                    alt = maps2.validator
                else:
                    alt = pickle.loads(pickle.dumps(cls(src_path)))
            except xmlschema.XMLSchemaException as e:
                with open(src_path, 'wb') as f:
                    f.write(data)
                res.evaluations += 1
                res.violation(f'arrangement-does-not-build:{how}:{type(e).__name__}', case,
                              f'{label} ({version}) {how}: {clean_reason(str(e))[:300]}')
                continue
            except (pickle.PicklingError, TypeError, AttributeError, RecursionError) as e:
                with open(src_path, 'wb') as f:
                    f.write(data)
                res.evaluations += 1
                res.violation(f'arrangement-raised:{how}:{type(e).__name__}', case, f'{label} ({version}) {how}: {e!r}'[:300])
                continue
            finally:
                pass
            res.case(env.h8((label, version, how)) if nglobals >= 3 else None)
            res.count('transform:' + how)
            got = observe(xmlschema, alt, probes)
            with open(src_path, 'wb') as f:
                f.write(data)
            if got[0] != base[0]:
                missing = [g for g in base[0] if g not in got[0]][:4]
                extra = [g for g in got[0] if g not in base[0]][:4]
                res.violation(f'globals-differ:{how}', case, f'{label} ({version}) {how}: missing {missing} extra {extra}')
            elif got[1] != base[1]:
                k = next(i for i in range(len(probes)) if got[1][i] != base[1][i])
                res.violation(f'probe-result-differs:{how}', dict(case, probe=str(probes[k])[:3000]),
                              f'{label} ({version}) {how}: probe {k}: {str(got[1][k])[:200]} vs original {str(base[1][k])[:200]}')
            else:
                res.count('agree')
                if len(res.samples) < 2:
                    res.sample({'schema': label, 'version': version, 'transform': how, 'globals': nglobals, 'probes': len(probes)})


class OrderProbe:
    """Distinct orders in which global components get built (PY_START on the staged-map build hook)."""

    def __init__(self):
        from vk.mon import probes
        self.counter = probes.CallCounter()
        self.seq = []
        try:
            from xmlschema.validators.builders import StagedMap
            target = getattr(StagedMap, '_build_global', None) or getattr(StagedMap, 'build', None)
        except ImportError:
            target = None
        self.ok = target is not None
        if self.ok:
            self.counter.watch('build_global', target)
            self.counter.start()

    def begin(self):
        if self.ok:
            self.counter.reset()

    def end(self, res):
        if self.ok:
            res.count('staged_build_calls', self.counter.counts['build_global'])


def run_corpus(spec, res):
    xmlschema = env.activate_repo()
    from vk.gen import corpus as C
    rng = env.rng_for(PROPERTY, spec['tier'], spec['seed'], 'corpus', spec['cshard'])
    order_probe = OrderProbe()
    insts = C.instances()
    items = [s for s in C.schemas() if s['errors'] == 0]
    for k, item in enumerate(items):
        if k % spec['cshards'] != spec['cshard']:
            continue
        src = item['xsd']
        if os.path.getsize(src) > 400000:
            continue
        scratch = tempfile.mkdtemp(prefix='c09-')
        dst_dir = os.path.join(scratch, 'd')
        try:
            shutil.copytree(os.path.dirname(src), dst_dir)
        except OSError:
            continue
        cls = xmlschema.XMLSchema11 if item['version'] == '1.1' else xmlschema.XMLSchema10
        probes = []
        for e in insts:
            if os.path.dirname(e['xml']) == os.path.dirname(src) and e['version'] == item['version']:
                try:
                    sch = C.schema_for(e)
                    if sch is not None and sch.source.url and os.path.basename(sch.source.url) == os.path.basename(src):
                        probes.append(os.path.join(dst_dir, os.path.basename(e['xml'])))
                except Exception:
                    pass
        label = os.path.relpath(src, C.cases_dir())
        check_schema(res, xmlschema, cls, os.path.join(dst_dir, os.path.basename(src)), probes[:4], rng, label,
                     item['version'], spec['rounds'], order_probe)
        res.count('corpus:schemas')
        shutil.rmtree(scratch, ignore_errors=True)


def run_family(spec, res):
    xmlschema = env.activate_repo()
    fam = spec['family']
    rng = env.rng_for(PROPERTY, spec['tier'], spec['seed'], fam)
    order_probe = OrderProbe()
    xsd = dict(D.FAMILIES, **D.EXTRA_FAMILIES)[fam]
    from checks.c10_history import build_pool
    probes = [t for _, t, _ in build_pool(fam, rng)][:10]
    for version, cls in (('1.0', xmlschema.XMLSchema10), ('1.1', xmlschema.XMLSchema11)):
        scratch = tempfile.mkdtemp(prefix='c09-')
        path = os.path.join(scratch, fam + '.xsd')
        with open(path, 'w') as f:
            f.write(xsd)
        check_schema(res, xmlschema, cls, path, probes, rng, 'family:' + fam, version, spec['rounds'], order_probe)
        shutil.rmtree(scratch, ignore_errors=True)


COMPOSE = {
    'main.xsd': f'''<?xml version="1.0"?>
<xs:schema xmlns:xs="{XS}" targetNamespace="urn:c:main" xmlns:m="urn:c:main" xmlns:a="urn:c:a" xmlns:b="urn:c:b"
    elementFormDefault="qualified">
  <xs:import namespace="urn:c:a" schemaLocation="a.xsd"/>
  <xs:import namespace="urn:c:b" schemaLocation="sub/b.xsd"/>
  <xs:include schemaLocation="inc.xsd"/>
  <xs:include schemaLocation="sub/inc2.xsd"/>
  <xs:element name="doc" type="m:Doc">
    <xs:key name="k"><xs:selector xpath="m:item"/><xs:field xpath="@id"/></xs:key>
    <xs:keyref name="r" refer="m:k"><xs:selector xpath="m:ref"/><xs:field xpath="@to"/></xs:keyref>
  </xs:element>
  <xs:complexType name="Doc">
    <xs:sequence>
      <xs:group ref="m:G1"/>
      <xs:element ref="m:head" minOccurs="0" maxOccurs="unbounded"/>
      <xs:element ref="a:ael" minOccurs="0"/>
      <xs:element name="bval" type="b:BT" minOccurs="0"/>
    </xs:sequence>
    <xs:attributeGroup ref="m:AG1"/>
  </xs:complexType>
  <xs:group name="G1"><xs:sequence><xs:group ref="m:G2"/><xs:element name="ref" type="m:Ref" minOccurs="0" maxOccurs="unbounded"/></xs:sequence></xs:group>
  <xs:group name="G2"><xs:sequence><xs:element name="item" type="m:Item" maxOccurs="unbounded"/></xs:sequence></xs:group>
  <xs:attributeGroup name="AG1"><xs:attributeGroup ref="m:AG2"/><xs:attribute name="v" type="m:Small"/></xs:attributeGroup>
  <xs:attributeGroup name="AG2"><xs:attribute name="w" type="xs:string" default="d"/></xs:attributeGroup>
  <xs:element name="member" type="m:Derived" substitutionGroup="m:head"/>
  <xs:element name="head" type="m:Base"/>
  <xs:complexType name="Derived"><xs:complexContent><xs:extension base="m:Base"><xs:attribute name="x" type="xs:int"/></xs:extension></xs:complexContent></xs:complexType>
  <xs:complexType name="Base"><xs:sequence><xs:element name="t" type="m:Small" minOccurs="0"/></xs:sequence></xs:complexType>
  <xs:simpleType name="Small"><xs:restriction base="m:Num"><xs:maxInclusive value="9"/></xs:restriction></xs:simpleType>
  <xs:simpleType name="Num"><xs:restriction base="xs:int"><xs:minInclusive value="0"/></xs:restriction></xs:simpleType>
</xs:schema>''',
    'inc.xsd': f'''<xs:schema xmlns:xs="{XS}" targetNamespace="urn:c:main" xmlns:m="urn:c:main" elementFormDefault="qualified">
  <xs:complexType name="Item"><xs:attribute name="id" type="m:Small" use="required"/></xs:complexType>
  <xs:complexType name="Ref"><xs:attribute name="to" type="m:Small" use="required"/></xs:complexType>
</xs:schema>''',
    # (inc.xsd is reached by two routes: from main.xsd and from sub/inc2.xsd)
    'sub/inc2.xsd': f'''<xs:schema xmlns:xs="{XS}" targetNamespace="urn:c:main" xmlns:m="urn:c:main" elementFormDefault="qualified">
  <xs:include schemaLocation="../inc.xsd"/>
  <xs:complexType name="Pair"><xs:sequence><xs:element name="i" type="m:Item"/><xs:element name="r" type="m:Ref"/></xs:sequence></xs:complexType>
</xs:schema>''',
    'a.xsd': f'''<xs:schema xmlns:xs="{XS}" targetNamespace="urn:c:a" xmlns:b="urn:c:b">
  <xs:import namespace="urn:c:b" schemaLocation="sub/b.xsd"/>
  <xs:element name="ael" type="b:BT"/>
</xs:schema>''',
    'sub/b.xsd': f'''<xs:schema xmlns:xs="{XS}" targetNamespace="urn:c:b">
  <xs:simpleType name="BT"><xs:restriction base="xs:token"><xs:enumeration value="p"/><xs:enumeration value="q"/></xs:restriction></xs:simpleType>
</xs:schema>''',
}
COMPOSE_PROBES = [
    '<m:doc xmlns:m="urn:c:main" xmlns:a="urn:c:a" v="3"><m:item id="1"/><m:item id="2"/><m:ref to="2"/><m:head><m:t>4</m:t></m:head>'
    '<m:member x="1"/><a:ael>p</a:ael><m:bval>q</m:bval></m:doc>',
    '<m:doc xmlns:m="urn:c:main" v="30"><m:item id="1"/><m:item id="01"/><m:ref to="5"/><m:member x="z"/><m:bval>r</m:bval></m:doc>',
    '<m:doc xmlns:m="urn:c:main"><m:ref to="1"/></m:doc>',
]


# XSD 1.1 only: properties given per schema document (defaultAttributes, defaultOpenContent, xpathDefaultNamespace,
# blockDefault) apply to components wherever the documents that declare and use them are placed
COMPOSE11 = {
    'main.xsd': f'''<?xml version="1.0"?>
<xs:schema xmlns:xs="{XS}" targetNamespace="urn:c:eleven" xmlns:m="urn:c:eleven" elementFormDefault="qualified"
    defaultAttributes="m:Common" xpathDefaultNamespace="##targetNamespace" blockDefault="substitution">
  <xs:include schemaLocation="inc11.xsd"/>
  <xs:defaultOpenContent mode="suffix"><xs:any namespace="##other" processContents="skip"/></xs:defaultOpenContent>
  <xs:element name="notes">
    <xs:complexType defaultAttributesApply="false">
      <xs:sequence><xs:element ref="m:note" maxOccurs="unbounded"/></xs:sequence>
    </xs:complexType>
    <xs:unique name="u"><xs:selector xpath="note"/><xs:field xpath="@id"/></xs:unique>
  </xs:element>
  <xs:element name="note" type="m:Note"/>
  <xs:element name="memo" type="m:Memo" substitutionGroup="m:note"/>
  <xs:complexType name="Note">
    <xs:sequence><xs:element name="body" type="xs:string"/></xs:sequence>
    <xs:attribute name="id" type="xs:int" use="required"/>
  </xs:complexType>
  <xs:complexType name="Memo" defaultAttributesApply="false">
    <xs:complexContent><xs:extension base="m:Note"><xs:attribute name="urgent" type="xs:boolean"/></xs:extension></xs:complexContent>
  </xs:complexType>
  <xs:complexType name="Plain" defaultAttributesApply="false">
    <xs:sequence><xs:element name="p" type="xs:string" minOccurs="0"/></xs:sequence>
  </xs:complexType>
  <xs:element name="plain" type="m:Plain"/>
  <xs:attributeGroup name="Common">
    <xs:attribute name="lang" type="xs:language"/>
    <xs:attribute name="rev" type="xs:positiveInteger" default="1"/>
  </xs:attributeGroup>
</xs:schema>''',
    'inc11.xsd': f'''<xs:schema xmlns:xs="{XS}" targetNamespace="urn:c:eleven" xmlns:m="urn:c:eleven" elementFormDefault="qualified"
    defaultAttributes="m:Common">
  <xs:complexType name="Extra"><xs:sequence><xs:element name="e" type="xs:int" minOccurs="0"/></xs:sequence></xs:complexType>
  <xs:element name="extra" type="m:Extra"/>
</xs:schema>''',
}
COMPOSE11_PROBES = [
    '<m:notes xmlns:m="urn:c:eleven"><m:note id="1" lang="en" rev="2"><m:body>x</m:body></m:note><m:note id="2"><m:body>y</m:body></m:note></m:notes>',
    '<m:notes xmlns:m="urn:c:eleven" lang="en"><m:note id="1"><m:body>x</m:body><o:other xmlns:o="urn:o"/></m:note>'
    '<m:note id="1" rev="0"><m:body>y</m:body></m:note><m:memo id="3" urgent="true"><m:body>z</m:body></m:memo></m:notes>',
    '<m:plain xmlns:m="urn:c:eleven" lang="en"><m:p>t</m:p><o:other xmlns:o="urn:o"/></m:plain>',
    '<m:extra xmlns:m="urn:c:eleven" lang="it" rev="x"><m:e>5</m:e></m:extra>',
    '<m:extra xmlns:m="urn:c:eleven"><o:other xmlns:o="urn:o"/></m:extra>',
]


# no target namespace: the main document includes D and imports a namespace whose document includes the same D as a
# chameleon; D is then two schema documents (one per namespace) loaded from one location
COMPOSE_CHAMELEON = {
    'main.xsd': f'''<?xml version="1.0"?>
<xs:schema xmlns:xs="{XS}" xmlns:x="urn:c:x">
  <xs:include schemaLocation="d.xsd"/>
  <xs:import namespace="urn:c:x" schemaLocation="x.xsd"/>
  <xs:element name="root"><xs:complexType><xs:sequence>
    <xs:element ref="item" maxOccurs="unbounded"/><xs:element ref="x:box" minOccurs="0"/>
  </xs:sequence></xs:complexType></xs:element>
</xs:schema>''',
    'd.xsd': f'''<xs:schema xmlns:xs="{XS}">
  <xs:element name="item" type="Code"/>
  <xs:simpleType name="Code"><xs:restriction base="xs:token"><xs:pattern value="[A-Z][0-9]+"/></xs:restriction></xs:simpleType>
</xs:schema>''',
    'x.xsd': f'''<xs:schema xmlns:xs="{XS}" targetNamespace="urn:c:x" xmlns:x="urn:c:x" elementFormDefault="qualified">
  <xs:include schemaLocation="d.xsd"/>
  <xs:element name="box"><xs:complexType><xs:sequence><xs:element ref="x:item" maxOccurs="2"/></xs:sequence></xs:complexType></xs:element>
</xs:schema>''',
}
COMPOSE_CHAMELEON_PROBES = [
    '<root><item>A1</item><item>B22</item><x:box xmlns:x="urn:c:x"><x:item>C3</x:item></x:box></root>',
    '<root><item>a1</item><x:box xmlns:x="urn:c:x"><x:item>C3</x:item><x:item>4</x:item><x:item>D5</x:item></x:box></root>',
    '<x:item xmlns:x="urn:c:x">Z9</x:item>',
    '<item>nope</item>',
]


def run_compose(spec, res):
    """A composition with imports, an include and forward references of every kind."""
    xmlschema = env.activate_repo()
    rng = env.rng_for(PROPERTY, spec['tier'], spec['seed'], 'compose', spec.get('part', 0))
    order_probe = OrderProbe()
    for version, cls in (('1.0', xmlschema.XMLSchema10), ('1.1', xmlschema.XMLSchema11)):
        scratch = tempfile.mkdtemp(prefix='c09-')
        d = os.path.join(scratch, 'compose')
        os.makedirs(os.path.join(d, 'sub'))
        for name, text in COMPOSE.items():
            with open(os.path.join(d, name), 'w') as f:
                f.write(text)
        check_schema(res, xmlschema, cls, os.path.join(d, 'main.xsd'), COMPOSE_PROBES, rng, 'compose', version,
                     spec['rounds'], order_probe)
        shutil.rmtree(scratch, ignore_errors=True)
    for version, cls in (('1.0', xmlschema.XMLSchema10), ('1.1', xmlschema.XMLSchema11)):
        scratch = tempfile.mkdtemp(prefix='c09-')
        d = os.path.join(scratch, 'chameleon')
        os.makedirs(d)
        for name, text in COMPOSE_CHAMELEON.items():
            with open(os.path.join(d, name), 'w') as f:
                f.write(text)
        check_schema(res, xmlschema, cls, os.path.join(d, 'main.xsd'), COMPOSE_CHAMELEON_PROBES, rng, 'chameleon', version,
                     spec['rounds'], order_probe)
        shutil.rmtree(scratch, ignore_errors=True)
    scratch = tempfile.mkdtemp(prefix='c09-')
    d = os.path.join(scratch, 'compose11')
    os.makedirs(d)
    for name, text in COMPOSE11.items():
        with open(os.path.join(d, name), 'w') as f:
            f.write(text)
    check_schema(res, xmlschema, xmlschema.XMLSchema11, os.path.join(d, 'main.xsd'), COMPOSE11_PROBES, rng, 'compose11', '1.1',
                 spec['rounds'], order_probe)
    shutil.rmtree(scratch, ignore_errors=True)


def run_shard(spec, res):
    {'corpus': run_corpus, 'family': run_family, 'compose': run_compose}[spec['kind']](spec, res)


def finalize(res, tier):
    c = res.counters
    reasons = []
    for how in TRANSFORMS:
        if not c.get('transform:' + how):
            reasons.append(f'transformation {how} never applied')
    if c.get('agree', 0) < 100:
        reasons.append('fewer than 100 agreeing comparisons')
    return {'inconclusive': reasons}


def replay(case):
    xmlschema = env.activate_repo()
    print('replay needs the original schema directory; re-running the owning shard instead')
    from vk.result import Result
    res = Result()
    if case['schema'] == 'compose':
        run_compose({'tier': 'thorough', 'seed': 0, 'rounds': 8}, res)
    elif case['schema'].startswith('family:'):
        run_family({'family': case['schema'][7:], 'tier': 'thorough', 'seed': 0, 'rounds': 6}, res)
    else:
        run_corpus({'tier': 'thorough', 'seed': 0, 'cshard': 0, 'cshards': 1, 'rounds': 2}, res)
    hits = [v for v in res.violations if v['case']['schema'] == case['schema']]
    for v in hits:
        print(v['mechanism'], v['detail'][:400])
    return bool(hits)
