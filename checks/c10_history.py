"""C10 - validation results never depend on what the schema object processed before."""
import copy
import io
import sys

from vk import env
from vk.gen import docs as D
from vk.paths import clean_reason

PROPERTY = 'C10'
LEVEL = 'exploration'
RULE = ('per schema (four families x XSD 1.0/1.1: xsi:type that widens identity selectors, key/keyref/unique, ID/IDREF, lax '
        'wildcards, fixed/default values, unions, lists, mixed content) a pool of 10-16 documents (valid, single-fault, '
        'identity-fault) and seeded call histories of length 12-60 over the operations {is_valid, iter_errors, validate, '
        'decode strict/lax/skip, to_objects, encode, component-level validation of a sub-element, path-restricted validation, '
        'lazy run, validation_hook that stops mid-document, extra_validator that raises, abandoned iter_errors generator, '
        'exception injected at a seeded library line through a sys.monitoring failpoint, direct XsdSimpleType.decode / '
        'is_valid on the per-schema scratch context}; every result is compared with the result of the same call on a freshly '
        'built schema; a case = one history step; distinct non-trivial = distinct (family, previous operation kind, operation '
        'kind) pairs whose previous operation left observable shared state or was aborted')
RULE += (' ' + 'Every shop pool has one undeclared tag under the lax wildcard in the forms the wildcard treats differently (plain, xsi:type, xsi:nil, both, bad typed value).')
ASSUMPTIONS = [
    'results are compared as (verdict, ordered error reasons with memory addresses stripped, repr of decoded data)',
    'calls that document a state change (build(), clear(), use_location_hints=True) are not part of histories',
    'the fresh-schema result is memoised per distinct call within a worker',
]
ANCHORS = {
    'xmlschema/validators/elements.py': [(672, 684)],
    'xmlschema/validators/identities.py': [(213, 246)],
    'xmlschema/caching.py': [(31, 87)],
    'xmlschema/validators/schemas.py': [(909, 915)],
    'xmlschema/validators/simple_types.py': [(465, 483)],
    'xmlschema/validators/validation.py': [(133, 177)],
}
SHARD_TIMEOUT = {'quick': 600, 'thorough': 3600}
LEVEL_TEXT = ('Differential runtime monitoring over call histories: one long-lived schema object processes seeded sequences of '
              'valid, invalid, aborted and fault-injected calls; after every step the observable result must equal what a '
              'freshly built schema returns for the same call. State deltas of the shared structures are recorded as evidence '
              'that the histories really touch them.')
LEVEL_NOTE = 'Trusted: the outcome normaliser and the fresh-schema baseline (same code, no history).'
TECHNIQUE = 'runtime monitoring: differential oracle over seeded call histories with abort / failpoint injection (sys.monitoring)'

ALL_FAMILIES = dict(D.FAMILIES, **D.EXTRA_FAMILIES)


ALT_XSD = f'''<xs:schema xmlns:xs="{D.XS}">
<xs:complexType name="Base"><xs:sequence><xs:element name="id" type="xs:string"/></xs:sequence><xs:attribute name="kind" type="xs:string"/></xs:complexType>
<xs:complexType name="Ext"><xs:complexContent><xs:extension base="Base"><xs:sequence><xs:element name="extra" type="xs:string"/>
  </xs:sequence></xs:extension></xs:complexContent></xs:complexType>
<xs:element name="root"><xs:complexType><xs:sequence><xs:element name="item" type="Base" maxOccurs="unbounded">
  <xs:alternative test="@kind='ext'" type="Ext"/></xs:element></xs:sequence></xs:complexType>
<xs:unique name="u"><xs:selector xpath=".//extra"/><xs:field xpath="."/></xs:unique>
<xs:key name="k"><xs:selector xpath="item"/><xs:field xpath="id"/></xs:key></xs:element></xs:schema>'''


def build_alt_pool(rng):
    """XSD 1.1: children that exist only through a type alternative or through xsi:type, under identity constraints of the
    parent: what one document makes the schema learn about the effective types must not change the next one's result."""
    pool = []
    for n in range(10):
        items = []
        for i in range(rng.randint(1, 3)):
            how = rng.choice(('plain', 'alt', 'xsi', 'alt'))
            extra = f'<extra>{rng.choice("xy")}</extra>' if how != 'plain' else ''
            attrs = {'plain': '', 'alt': ' kind="ext"', 'xsi': ' xsi:type="Ext"'}[how]
            items.append(f'<item{attrs}><id>{rng.choice("abc")}{i}</id>{extra}</item>')
        pool.append((f'alt{n}', f'<root xmlns:xsi="{D.XSI}">' + ''.join(items) + '</root>', None))
    return pool


def plan(tier, seed):
    nh = 14 if tier == 'quick' else 60
    specs = [{'kind': 'hist', 'family': 'alt', 'version': '1.1', 'histories': nh, 'part': part, 'length': 20 if tier == 'quick' else 50}
             for part in range(2)]
    for fam in ALL_FAMILIES:
        for v in ('1.0', '1.1'):
            for part in range(2 if tier == 'quick' else 4):
                specs.append({'kind': 'hist', 'family': fam, 'version': v, 'histories': nh, 'part': part,
                              'length': 20 if tier == 'quick' else 50})
    return specs


# ---------------------------------------------------------------------------------------------
class Failpoint:
    """Raise an exception at the k-th executed line inside xmlschema/validators during one call."""
    TOOL = 2

    class Injected(RuntimeError):
        pass

    def __init__(self, root):
        self.root = root + '/xmlschema/validators/'
        self.countdown = None
        self.fired = 0
        mon = sys.monitoring
        mon.use_tool_id(self.TOOL, 'vk-failpoint')
        mon.register_callback(self.TOOL, mon.events.LINE, self._on_line)

    def _on_line(self, code, line):
        if self.countdown is None or not code.co_filename.startswith(self.root):
            return sys.monitoring.DISABLE if self.countdown is None else None
        self.countdown -= 1
        if self.countdown <= 0:
            self.countdown = None
            self.fired += 1
            sys.monitoring.set_events(self.TOOL, 0)
            raise Failpoint.Injected('injected by failpoint')

    def arm(self, k):
        self.countdown = k
        sys.monitoring.restart_events()
        sys.monitoring.set_events(self.TOOL, sys.monitoring.events.LINE)

    def disarm(self):
        self.countdown = None
        sys.monitoring.set_events(self.TOOL, 0)


def build_pool(fam, rng):
    pool = []
    for i in range(5):
        if fam == 'poly':
            doc = D.gen_poly(rng, None)
        elif fam == 'fx':
            doc = D.gen_fx(rng)
        else:
            doc = D.GENERATORS[fam](rng)
        prefixes = D.default_prefixes(fam, rng)
        pool.append(('valid', D.render_doc(doc, fam, prefixes=prefixes), doc))
        faults = [(p, k) for p, n in doc.walk() for k in D.faults_at(doc, p)]
        rng.shuffle(faults)
        for p, k in faults[:1]:
            r = D.apply_fault(doc, p, k, rng)
            if r:
                pool.append((k, D.render_doc(r[0], fam, prefixes=prefixes), r[0]))
        if fam == 'fx':
            pool.append(('mixed', D.render_doc(D.gen_fx(rng), fam, prefixes=prefixes), None))
            pool.append(('mixed', D.render_doc(D.gen_fx(rng), fam, prefixes=prefixes), None))
        elif fam == 'poly':
            for f in ('dup_key', 'dangling_keyref', 'dup_shelf', 'loose_only'):
                d2 = D.gen_poly(rng, f)
                pool.append((f, D.render_doc(d2, fam, prefixes=prefixes), d2))
        else:
            kinds = list(D.IDENTITY_FAULTS) + list(D.SPECIAL_IDENTITY_FAULTS)
            rng.shuffle(kinds)
            for idk in kinds[:2]:
                r = D.identity_fault(doc, fam, idk, rng)
                if r:
                    pool.append((idk, D.render_doc(r[0], fam, prefixes=prefixes), r[0]))
    pool = pool[:16]
    if fam == 'shop':
        # one undeclared tag under the lax wildcard in the forms the wildcard treats differently (with and without
        # xsi:type, nilled): whatever a schema object keeps about such a tag is shared by these documents
        doc = D.GENERATORS[fam](rng)
        while not any(c.name == 'order' for c in doc.children):
            doc = D.GENERATORS[fam](rng)
        prefixes = D.default_prefixes(fam, rng)
        order = [c for c in doc.children if c.name == 'order'][-1]
        order.children = [c for c in order.children if not c.meta.get('wild')]
        for name, attrs, text in (('wild_plain', [], 'v'), ('wild_typed', [(D.XSI, 'type', 'xs:int')], '5'),
                                  ('wild_nil', [(D.XSI, 'nil', 'true')], None),
                                  ('wild_typed_nil', [(D.XSI, 'type', 'xs:int'), (D.XSI, 'nil', 'true')], None),
                                  ('wild_typed_bad', [(D.XSI, 'type', 'xs:int')], 'x')):
            d2 = copy.deepcopy(doc)
            o2 = [c for c in d2.children if c.name == 'order'][-1]
            o2.children.append(D.N(D.EXT, 'probe', list(attrs), text=text, meta={'wild': True}))
            pool.append((name, D.render_doc(d2, fam, prefixes=prefixes), d2))
    if fam == 'shop':
        # an unprefixed xsi:type value resolves with the default namespace in scope: the same text means another name in
        # another document (default namespace = the schema's namespace: valid; no default namespace: not found)
        for _ in range(40):
            doc = D.GENERATORS[fam](rng)
            if any(n.meta.get('xsi_type') and any(a[2] == 's:Company' for a in n.attrs) for _, n in doc.walk()):
                break
        else:
            return pool
        for _, n in doc.walk():
            n.attrs = [(a[0], a[1], 'Company') if (a[0] == D.XSI and a[1] == 'type' and a[2] == 's:Company') else a for a in n.attrs]
        pool.append(('xsitype_unprefixed_default_ns', D.render_doc(doc, fam, prefixes={D.SHOP: '', D.EXT: 'e'}), doc))
        pool.append(('xsitype_unprefixed_no_default_ns', D.render_doc(doc, fam, prefixes={D.SHOP: 'q', D.EXT: 'e'}), doc))
    return pool


OPS = ('is_valid', 'iter_errors', 'validate', 'decode_strict', 'decode_lax', 'decode_skip', 'to_objects', 'encode',
       'component', 'find_children_as_globals', 'path_errors', 'lazy_errors', 'hook_stop', 'extra_raise', 'abandon', 'failpoint', 'simple_scratch', 'cache_toggle')
ABORTING = ('hook_stop', 'extra_raise', 'abandon', 'failpoint', 'validate', 'decode_strict')


def run_op(xmlschema, schema, op, text, arg, failpoint):
    """Normalised outcome of one call. Aborting operations return a marker (their effect on later calls is the point)."""
    E = xmlschema.XMLSchemaValidationError
    if op == 'is_valid':
        return schema.is_valid(text)
    if op == 'iter_errors':
        return [clean_reason(e.reason) for e in schema.iter_errors(text)]
    if op == 'validate':
        try:
            schema.validate(text)
            return 'ok'
        except E as e:
            return ('raised', clean_reason(e.reason))
    if op == 'decode_strict':
        try:
            return repr(schema.decode(text))
        except E as e:
            return ('raised', clean_reason(e.reason))
    if op == 'decode_lax':
        data, errs = schema.decode(text, validation='lax')
        return repr(data), [clean_reason(e.reason) for e in errs]
    if op == 'decode_skip':
        return repr(schema.decode(text, validation='skip'))
    if op == 'to_objects':
        out = schema.to_objects(text, validation='lax')
        obj, errs = out if isinstance(out, tuple) else (out, [])
        return obj_sig(obj), [clean_reason(e.reason) for e in errs]
    if op == 'encode':
        data, errs = schema.decode(text, validation='lax')
        try:
            out = schema.encode(data, validation='lax')
        except xmlschema.XMLSchemaException as e:
            return ('encode-raised', type(e).__name__)
        elem, eerrs = out if isinstance(out, tuple) else (out, [])
        # structural, not ET.tostring: its prefixes depend on the process-wide ET namespace registry
        def sig(e):
            return (e.tag, tuple(sorted(e.attrib.items())), e.text, e.tail, tuple(sig(c) for c in e))
        return (sig(elem) if elem is not None else None), [clean_reason(e.reason) for e in eerrs]
    if op == 'cache_toggle':
        # the memo caches of the global maps switched off / on again: later results must not depend on it
        schema.maps.cache.enabled = not schema.maps.cache.enabled
        return 'toggled'
    if op == 'find_children_as_globals':
        # what the schema's own XPath view resolves for the names of the root's children (a local declaration is not a
        # global element, whatever was validated before)
        root = xmlschema.XMLResource(text).root
        out = []
        for tag in sorted({c.tag for c in root if not callable(c.tag)}):
            ns, _, local = tag[1:].rpartition('}') if tag.startswith('{') else ('', '', tag)
            found = schema.find(f'p:{local}', {'p': ns}) if ns else schema.find(local)
            out.append((tag, None if found is None else (type(found).__name__, found.name, found.parent is None)))
        return out
    if op == 'component':
        res = xmlschema.XMLResource(text)
        root = res.root
        kids = [c for c in root if not callable(c.tag)]
        if not kids:
            return 'no-children'
        child = kids[arg % len(kids)]
        xsd = schema.maps.elements[root.tag].type.content
        xsd_child = None
        for e in xsd.iter_elements():
            m = e.match(child.tag)
            if m is not None:
                xsd_child = m
                break
        if xsd_child is None:
            return 'no-declaration'
        return [clean_reason(e.reason) for e in xsd_child.iter_errors(child, namespaces=res.get_namespaces(root_only=True))]
    if op == 'path_errors':
        res = xmlschema.XMLResource(text)
        return [clean_reason(e.reason) for e in schema.iter_errors(res, path='*')]
    if op == 'lazy_errors':
        return [clean_reason(e.reason) for e in schema.iter_errors(xmlschema.XMLResource(text.encode('utf-8'), lazy=1))]
    if op == 'hook_stop':
        count = [0]

        def hook(element, xsd_element):
            count[0] += 1
            return count[0] > arg + 1
        return [clean_reason(e.reason) for e in schema.iter_errors(text, validation_hook=hook)]
    if op == 'extra_raise':
        count = [0]

        def extra(element, xsd_element):
            count[0] += 1
            if count[0] > arg + 1:
                raise ValueError('extra validator gives up')
        try:
            list(schema.iter_errors(text, extra_validator=extra))
            return 'completed'
        except ValueError:
            return 'aborted'
    if op == 'abandon':
        it = schema.iter_errors(text)
        first = next(it, None)
        del it
        return clean_reason(first.reason) if first is not None else None
    if op == 'failpoint':
        failpoint.arm(20 + arg * 37)
        try:
            list(schema.iter_errors(text))
            return 'completed'
        except Failpoint.Injected:
            return 'aborted'
        finally:
            failpoint.disarm()
    if op == 'simple_scratch':
        # direct use of the per-schema scratch context
        out = []
        for name, st in sorted(schema.types.items()):
            if st.is_simple():
                for v in ('1', 'S', 'x y', '2020-02-30', 'AB123'):
                    out.append((name, v, st.is_valid(v)))
                    try:
                        out.append(repr(st.decode(v, validation='lax')))
                    except xmlschema.XMLSchemaException as e:
                        out.append(type(e).__name__)
        return out
    raise ValueError(op)


def obj_sig(o):
    if o is None:
        return None
    kids = list(o)
    return (o.tag, tuple(sorted((k, repr(v)) for k, v in o.attrib.items())), repr(o.value) if not kids else None,
            tuple(obj_sig(c) for c in kids))


def shared_state(schema):
    """Sizes of the shared mutable structures (evidence that histories touch them)."""
    n_xsi = 0
    n_ident = 0
    for e in schema.iter_components():
        xt = getattr(e, 'xsi_types', None)
        if xt:
            n_xsi += len(xt)
        els = getattr(e, 'elements', None)
        if isinstance(els, dict) and hasattr(e, 'selector'):
            n_ident += len(els)
    cache = 0
    try:
        for c in schema.maps.cache._caches.values():
            info = getattr(c, 'cache_info', None)
            if info:
                cache += info().currsize
    except AttributeError:
        pass
    return (n_xsi, n_ident, cache)


def run_shard(spec, res):
    xmlschema = env.activate_repo()
    fam, version = spec['family'], spec['version']
    cls = xmlschema.XMLSchema10 if version == '1.0' else xmlschema.XMLSchema11
    xsd = ALT_XSD if fam == 'alt' else D.family_xsd(fam, version)
    rng = env.rng_for(PROPERTY, spec['tier'], spec['seed'], fam, version, spec['part'])
    failpoint = Failpoint(env.VERIF_REPO)
    pool = build_alt_pool(rng) if fam == 'alt' else build_pool(fam, rng)
    baseline = {}

    def fresh_result(op, i, arg):
        key = (op, i, arg)
        if key not in baseline:
            try:
                baseline[key] = ('ok', run_op(xmlschema, cls(xsd), op, pool[i][1], arg, failpoint))
            except xmlschema.XMLSchemaException as e:
                baseline[key] = ('exc', type(e).__name__, clean_reason(str(getattr(e, 'reason', e)))[:200])
            except Exception as e:
                baseline[key] = ('foreign', type(e).__name__)
        return baseline[key]

    for h in range(spec['histories']):
        schema = cls(xsd)
        prev_op = 'fresh'
        prev_state = shared_state(schema)
        history = []
        for step in range(spec['length']):
            op = rng.choice(OPS)
            i = rng.randrange(len(pool))
            arg = rng.randrange(4)
            history.append([op, i, arg])
            want = fresh_result(op, i, arg)
            try:
                got = ('ok', run_op(xmlschema, schema, op, pool[i][1], arg, failpoint))
            except xmlschema.XMLSchemaException as e:
                got = ('exc', type(e).__name__, clean_reason(str(getattr(e, 'reason', e)))[:200])
            except Exception as e:
                got = ('foreign', type(e).__name__)
            state = shared_state(schema)
            touched = state != prev_state or prev_op in ABORTING
            res.case(env.h8((fam, prev_op, op)) if touched else None)
            res.count('op:' + op)
            if state != prev_state:
                res.count('state_delta_steps')
            if got[0] == 'ok' and got[1] == 'aborted':
                res.count('aborted_runs')
            if got != want:
                res.violation(f'history-dependent-result:{op}',
                              {'family': fam, 'version': version, 'docs': [p[1] for p in pool], 'history': history},
                              f'{fam} {version} step {step} {op}(doc {i}:{pool[i][0]}, {arg}) after {prev_op}: '
                              f'got {str(got)[:200]} fresh {str(want)[:200]}')
                break
            res.count('steps:agree')
            prev_op, prev_state = op, state
        res.sample({'family': fam, 'version': version, 'history': history[:8], 'final_shared_state': list(prev_state)}) \
            if h == 0 else None
    res.count('failpoint:fired', failpoint.fired)


def finalize(res, tier):
    c = res.counters
    reasons = []
    if c.get('steps:agree', 0) < 500:
        reasons.append('fewer than 500 history steps compared')
    if not c.get('state_delta_steps'):
        reasons.append('no step changed the recorded shared state: histories did not touch it')
    if not c.get('failpoint:fired'):
        reasons.append('the failpoint never fired')
    if not c.get('aborted_runs'):
        reasons.append('no aborted validation was produced')
    return {'inconclusive': reasons}


def replay(case):
    xmlschema = env.activate_repo()
    fam, version = case['family'], case['version']
    cls = xmlschema.XMLSchema10 if version == '1.0' else xmlschema.XMLSchema11
    xsd = ALT_XSD if fam == 'alt' else D.family_xsd(fam, version)
    failpoint = Failpoint(env.VERIF_REPO)
    schema = cls(xsd)
    bad = False
    for op, i, arg in case['history']:
        def call(s):
            try:
                return ('ok', run_op(xmlschema, s, op, case['docs'][i], arg, failpoint))
            except xmlschema.XMLSchemaException as e:
                return ('exc', type(e).__name__, clean_reason(str(getattr(e, 'reason', e)))[:200])
            except Exception as e:
                return ('foreign', type(e).__name__)
        got, want = call(schema), call(cls(xsd))
        print(op, i, arg, 'same' if got == want else f'DIFFERENT: {str(got)[:300]} vs fresh {str(want)[:300]}')
        bad = bad or got != want
    return bad
