"""C11 - every input ends in a verdict or a library error; documented limits hold."""
import copy
import io
import tempfile
import os
import traceback

from vk import env
from vk.gen import docs as D
from vk.mon import watchdog

PROPERTY = 'C11'
LEVEL = 'fault_enumeration'
RULE = ('fault enumeration over documents of four generated schema families and the repository corpus: structural mutations '
        '(duplicate / delete / move subtree, rename into unknown, absent and foreign namespaces, stray xsi:type / xsi:nil / '
        'xsi:schemaLocation / unknown xsi attributes with odd QNames), lexical mutations (a hostile value catalogue: huge '
        'numbers and years, exponents, digit separators, non-ASCII digits, long strings, odd durations and dates, blank and '
        'control-adjacent text) in every text and attribute position, byte-level faults (truncation at every 1/64 of the '
        'stream, bit flips, duplicated and swapped chunks, premature EOF on non-seekable streams, declared-vs-actual encoding '
        'mismatch); nesting depth and element count swept at limit-1, limit, limit+1 for depth limits {5, 50, 200, 1000} and '
        'element limits {10, 1000}, eager and lazy, six document shapes (comments / PIs in prolog, inside, trailing), after settings '
        'the limits module refuses (0, negative, non-integers) were attempted, one process per limit setting; each input goes through XMLResource(), '
        'is_valid, iter_errors, decode strict and decode lax; a case = (input, api); distinct non-trivial = distinct (source, '
        'mutation kind, value class, api) combinations on mutated inputs')
RULE += (' ' + "A typed-role catalogue puts overflowing and hostile lexical forms at every role of every built-in family (plain / fixed / default element and attribute, list item, union member, identity field); every entry point is also driven with validation='skip'.")
ASSUMPTIONS = [
    'library exception = isinstance(e, xmlschema.XMLSchemaException); anything else crossing the API boundary is foreign',
    'lax mode (iter_errors, decode(validation="lax")) must not raise at all for a well-formed document',
    'a watchdog firing (20 s per call) is inconclusive, not a violation',
    'depth of a document = number of nested element levels (root = 1); within the limit means depth <= MAX_XML_DEPTH and elements <= MAX_XML_ELEMENTS',
    'KeyboardInterrupt / MemoryError are not counted',
]
ANCHORS = {
    'xmlschema/resources/xml_loader.py': [(220, 329)],
    'xmlschema/validators/validation.py': [(216, 318)],
    'xmlschema/validators/simple_types.py': [(713, 734)],
    'xmlschema/limits.py': [(20, 43)],
    'xmlschema/validators/elements.py': [(743, 745)],
    'xmlschema/validators/groups.py': [(1058, 1058)],
}
SHARD_TIMEOUT = {'quick': 900, 'thorough': 5400}
LEVEL_TEXT = ('Fault-injection runtime monitoring with an exception-type sentinel: generated and corpus documents are damaged '
              'structurally, lexically and at byte level and pushed through the public validation / decoding entry points; '
              'every outcome is classified as return / library exception / foreign exception / watchdog. Limit behaviour is '
              'decided arithmetically from generated depths and element counts.')
LEVEL_NOTE = ('Trusted: the sentinel\'s isinstance test, the generators\' depth / element arithmetic. Termination is claimed only '
              'as bounded progress under the watchdog.')
TECHNIQUE = 'runtime monitoring: fault enumeration with exception-type sentinel and limit sweeps (one process per limit setting)'

HOSTILE = [
    ('huge_int', '9' * 400), ('huge_exp', '1e400'), ('neg_zero', '-0'), ('digit_sep', '1_000'), ('fullwidth', '１２'),
    ('inner_space', '12 1'), ('hex', '0x10'), ('inf', 'INF'), ('neg_inf', '-INF'), ('nan', 'NaN'), ('plus_inf', '+INF'),
    ('huge_year', '999999999-01-01'), ('neg_huge_year', '-99999999999999999999-12-31'), ('huge_gyear', '99999999999999999999'),
    ('bad_datetime', '2020-02-30T25:61:61'), ('year0', '0000-01-01'), ('tz_big', '2020-01-01+99:99'),
    ('duration_long', 'P1Y2M3DT4H5M6.7S' * 3), ('duration_empty', 'PT'), ('duration_huge', 'P' + '9' * 60 + 'Y'),
    ('blank', ' '), ('empty', ''), ('whitespace', '\t\n '), ('accents', 'é' * 50), ('zero_width', '​'),
    ('replacement', '�'), ('long', 'a' * 70000), ('cdata_end', ']]>'), ('qname_unknown', 'zz:name'),
    ('qname_colon', ':x'), ('qname_trail', 'x:'), ('clark', '{urn:x}n'), ('many_colons', 'a:b:c'),
    ('bool_caps', 'TRUE'), ('float_comma', '1,5'), ('sci_neg', '-1E-400'), ('percent', '%s%d{0}'), ('nul_like', '\\x00'),
    ('surrogate_pair', '\U0001f600'), ('base64', 'AAA='), ('hexodd', 'ABC'),
]
XSI_ATTRS = [
    ('type', 'zz:T'), ('type', 'xs:string'), ('type', 's:Nope'), ('type', ''), ('type', ':'), ('type', 'a:b:c'),
    ('type', 's:Company'), ('type', 'p:Ext'), ('type', 'xs:anyType'), ('type', 'xs:int'),
    ('nil', 'maybe'), ('nil', 'true'), ('nil', '1'), ('schemaLocation', 'urn:a'), ('schemaLocation', 'urn:a b c'),
    ('noNamespaceSchemaLocation', ' '), ('foo', 'bar'),
]
ALL_FAMILIES = dict(D.FAMILIES, **D.EXTRA_FAMILIES)


def plan(tier, seed):
    specs = []
    nshards = 10 if tier == 'quick' else 40
    per = 12 if tier == 'quick' else 60
    for s in range(nshards):
        specs.append({'kind': 'fuzz', 'fshard': s, 'docs': per})
    for s in range(2 if tier == 'quick' else 8):
        specs.append({'kind': 'bytes', 'bshard': s, 'docs': 6 if tier == 'quick' else 20})
    specs.append({'kind': 'corpus', 'mut': 4 if tier == 'quick' else 30})
    for s in range(6):
        specs.append({'kind': 'typed', 'tshard': s, 'tshards': 6})
    specs.append({'kind': 'wildmsg'})
    for limit in (5, 50, 200, 1000):
        for lazy in (False, True):
            specs.append({'kind': 'depth', 'limit': limit, 'lazy': lazy, 'no_cov': limit > 200})
    for limit in (10, 1000):
        specs.append({'kind': 'elements', 'limit': limit})
    return specs


# ---------------------------------------------------------------------------------------------
class Sentinel:
    def __init__(self, xmlschema, res):
        self.x = xmlschema
        self.res = res

    def call(self, api, fn, case, lax=False, wellformed=True):
        """Classify one API call; record violations for foreign exceptions and for lax-mode raises."""
        res = self.res
        res.evaluations += 1
        try:
            with watchdog.limit(20):
                out = fn()
            res.count(f'outcome:{api}:return')
            return ('return', out)
        except watchdog.WatchdogFired:
            res.inconclusive_case('watchdog', {'api': api, 'case': str(case)[:300]})
            return ('watchdog', None)
        except self.x.XMLSchemaException as e:
            res.count(f'outcome:{api}:library:{type(e).__name__}')
            if lax and wellformed and not isinstance(e, (self.x.XMLResourceError,)):
                res.violation(f'lax-mode-raised:{api}:{type(e).__name__}:{innermost(e)}', case,
                              f'{api} raised {type(e).__name__} in lax mode: {str(e)[:200]}')
            return ('library', e)
        except (KeyboardInterrupt, MemoryError):
            raise
        except BaseException as e:
            res.count(f'outcome:{api}:foreign:{type(e).__name__}')
            mech = f'foreign-exception:{type(e).__name__}:{innermost(e)}'
            if isinstance(e, RecursionError) and isinstance(case, dict) and case.get('depth', 0) >= 400:
                mech = 'foreign-exception:RecursionError:document-depth>=400-within-MAX_XML_DEPTH'
            res.violation(mech, case, f'{api} raised {type(e).__name__}: {str(e)[:200]}')
            return ('foreign', e)


def innermost(exc):
    tb = traceback.extract_tb(exc.__traceback__)
    for fr in reversed(tb):
        if os.sep + 'xmlschema' + os.sep in fr.filename:
            return f'{os.path.basename(fr.filename)}:{fr.name}'
    return 'outside-library'


def drive(sent, xmlschema, schema, source_factory, case, wellformed_hint=None):
    """All entry points on one input. source_factory() -> fresh source (text / bytes / stream)."""
    r = sent.call('XMLResource', lambda: xmlschema.XMLResource(source_factory()), case)
    wellformed = r[0] == 'return'
    if not wellformed:
        sent.res.count('inputs:not_wellformed_or_refused')
    else:
        sent.res.count('inputs:wellformed')
    sent.call('is_valid', lambda: schema.is_valid(source_factory()), case, wellformed=wellformed)
    sent.call('iter_errors', lambda: list(schema.iter_errors(source_factory())), case, lax=True, wellformed=wellformed)
    sent.call('decode_strict', lambda: schema.decode(source_factory()), case, wellformed=wellformed)
    sent.call('decode_lax', lambda: schema.decode(source_factory(), validation='lax'), case, lax=True, wellformed=wellformed)
    sent.call('decode_skip', lambda: schema.decode(source_factory(), validation='skip'), case, lax=True, wellformed=wellformed)


# ---------------------------------------------------------------------------------------------
def mutate_tree(doc, rng):
    """One seeded structural or lexical mutation of an N tree. Returns (tree, kind, value class)."""
    t = copy.deepcopy(doc)
    nodes = list(t.walk())
    kind = rng.choice(('dup', 'del', 'move', 'rename', 'xsi', 'attr_value', 'text_value', 'text_value', 'attr_inject'))
    path, node = rng.choice(nodes)
    vclass = ''
    if kind == 'dup' and path:
        parent = t.at(path[:-1])
        parent.children.insert(path[-1], copy.deepcopy(node))
    elif kind == 'del' and path:
        parent = t.at(path[:-1])
        del parent.children[path[-1]]
    elif kind == 'move' and path:
        parent = t.at(path[:-1])
        sub = parent.children.pop(path[-1])
        tp, target = rng.choice(list(t.walk()))
        target.children.insert(rng.randint(0, len(target.children)), sub)
    elif kind == 'rename':
        node.ns = rng.choice(('', 'urn:vk:unknown', D.EXT, D.SHOP, D.TREE))
        vclass = node.ns or 'absent'
    elif kind == 'xsi':
        name, value = rng.choice(XSI_ATTRS)
        node.attrs = [a for a in node.attrs if not (a[0] == D.XSI and a[1] == name)] + [(D.XSI, name, value)]
        vclass = f'{name}={value}'
    elif kind == 'attr_value' and node.attrs:
        i = rng.randrange(len(node.attrs))
        vclass, value = rng.choice(HOSTILE)
        node.attrs[i] = (node.attrs[i][0], node.attrs[i][1], value)
    elif kind == 'attr_inject':
        vclass, value = rng.choice(HOSTILE)
        node.attrs.append((rng.choice(('', D.EXT, 'urn:vk:unknown')), 'inj', value))
    else:
        kind = 'text_value'
        vclass, value = rng.choice(HOSTILE)
        node.text = value
    return t, kind, vclass


def run_fuzz(spec, res):
    xmlschema = env.activate_repo()
    sent = Sentinel(xmlschema, res)
    schemas = {}
    for fam, xsd in ALL_FAMILIES.items():
        for v, cls in (('1.0', xmlschema.XMLSchema10), ('1.1', xmlschema.XMLSchema11)):
            schemas[fam, v] = cls(xsd)
    rng = env.rng_for(PROPERTY, spec['tier'], spec['seed'], 'fuzz', spec['fshard'])
    for d in range(spec['docs']):
        fam = rng.choice(list(ALL_FAMILIES))
        version = rng.choice(('1.0', '1.1'))
        doc = D.GENERATORS[fam](rng)
        schema = schemas[fam, version]
        for m in range(10):
            tree, kind, vclass = mutate_tree(doc, rng)
            if rng.random() < 0.3:
                tree, k2, v2 = mutate_tree(tree, rng)
                kind, vclass = kind + '+' + k2, vclass + '|' + v2
            try:
                text = D.render_doc(tree, fam, rng)
            except (ValueError, KeyError):
                continue
            case = {'family': fam, 'version': version, 'mutation': kind, 'value': vclass, 'doc': text if len(text) < 6000 else text[:6000]}
            res.nontrivial.add(env.h8((fam, kind.split('+')[0], vclass.split('|')[0])))
            res.count('mutation:' + kind.split('+')[0])
            drive(sent, xmlschema, schema, lambda: text, case)
            if len(res.samples) < 2:
                res.sample({'family': fam, 'mutation': kind, 'value_class': vclass, 'chars': len(text)})
        if d % 4 == 0:
            # out-of-range values at *every* attribute and text position of the document (one position at a time): the
            # places where a typed value is computed are few and position-specific (fixed values, identity fields, ...)
            positions = [(p, 'attr', i) for p, n in doc.walk() for i in range(len(n.attrs)) if n.attrs[i][0] != D.XSI] + \
                        [(p, 'text', None) for p, n in doc.walk() if not n.children]
            for p, where, i in [pos for pos in positions for _ in OVERFLOWING]:
                sweep_k = sweep_k + 1 if 'sweep_k' in locals() else 0
                vclass, value = OVERFLOWING[sweep_k % len(OVERFLOWING)]
                tree = copy.deepcopy(doc)
                node = tree.at(p)
                if where == 'attr':
                    node.attrs[i] = (node.attrs[i][0], node.attrs[i][1], value)
                else:
                    node.text = value
                try:
                    text = D.render_doc(tree, fam, rng)
                except (ValueError, KeyError):
                    continue
                case = {'family': fam, 'version': version, 'mutation': 'overflow_sweep:' + where, 'value': vclass,
                        'doc': text if len(text) < 6000 else text[:6000]}
                res.nontrivial.add(env.h8((fam, 'overflow_sweep', where, vclass, p)))
                res.count('mutation:overflow_sweep')
                drive(sent, xmlschema, schema, lambda: text, case)


OVERFLOWING = [('huge-year', '99999999999999999999'), ('huge-date', '99999999999999999999-01-01'),
               ('huge-duration', 'P99999999999999999999Y'), ('huge-exponent', '1e999999999'),
               ('huge-datetime', '-99999999999999999999-12-31T00:00:00Z'), ('huge-integer', '9' * 400)]


TYPED_TYPES = ['date', 'dateTime', 'time', 'gYear', 'gYearMonth', 'gMonthDay', 'duration', 'double', 'float', 'decimal',
               'integer', 'int', 'unsignedByte', 'boolean', 'hexBinary', 'anyURI', 'QName']
TYPED_VALID = {'date': '2001-02-03', 'dateTime': '2001-02-03T04:05:06Z', 'time': '04:05:06', 'gYear': '2001',
               'gYearMonth': '2001-02', 'gMonthDay': '--02-03', 'duration': 'P1Y', 'double': '1.5', 'float': '1.5',
               'decimal': '1.5', 'integer': '7', 'int': '7', 'unsignedByte': '7', 'boolean': 'true', 'hexBinary': '0A',
               'anyURI': 'urn:a', 'QName': 'xs:a'}
TYPED_NS = 'urn:vk:typed'


def typed_xsd():
    """Every role in which a typed value is computed, for every built-in family: plain, fixed and defaulted elements and
    attributes, identity fields, list items and union members."""
    out = [f'<xs:schema xmlns:xs="{D.XS}" xmlns:t="{TYPED_NS}" targetNamespace="{TYPED_NS}" elementFormDefault="qualified">',
           '<xs:element name="root"><xs:complexType><xs:sequence>']
    for t in TYPED_TYPES:
        v = TYPED_VALID[t]
        out.append(f'<xs:element name="e_{t}" type="xs:{t}" minOccurs="0" maxOccurs="unbounded"/>')
        out.append(f'<xs:element name="f_{t}" type="xs:{t}" fixed="{v}" minOccurs="0"/>')
        out.append(f'<xs:element name="d_{t}" type="xs:{t}" default="{v}" minOccurs="0"/>')
        out.append(f'<xs:element name="l_{t}" minOccurs="0"><xs:simpleType><xs:list itemType="xs:{t}"/></xs:simpleType></xs:element>')
        out.append(f'<xs:element name="u_{t}" minOccurs="0"><xs:simpleType><xs:union memberTypes="xs:{t} xs:boolean"/></xs:simpleType></xs:element>')
        out.append(f'<xs:element name="c_{t}" minOccurs="0"><xs:complexType><xs:simpleContent><xs:extension base="xs:{t}">'
                   f'<xs:attribute name="a" type="xs:{t}"/><xs:attribute name="b" type="xs:{t}" fixed="{v}"/>'
                   f'<xs:attribute name="c" type="xs:{t}" default="{v}"/></xs:extension></xs:simpleContent></xs:complexType></xs:element>')
    out.append('</xs:sequence></xs:complexType>')
    for t in TYPED_TYPES:
        out.append(f'<xs:unique name="un_{t}"><xs:selector xpath="t:e_{t}"/><xs:field xpath="."/></xs:unique>')
        out.append(f'<xs:unique name="ua_{t}"><xs:selector xpath="t:c_{t}"/><xs:field xpath="@a"/></xs:unique>')
    out.append('</xs:element></xs:schema>')
    return ''.join(out)


def run_typed(spec, res):
    """Out-of-range and hostile lexical forms at every role of every built-in family (one position at a time)."""
    xmlschema = env.activate_repo()
    sent = Sentinel(xmlschema, res)
    xsd = typed_xsd()
    values = OVERFLOWING + [h for h in HOSTILE if h[0] in ('empty', 'blank', 'nan', 'qname_unknown', 'year0', 'tz_big', 'duration_empty')] + [('valid', None)]
    for version, cls in (('1.0', xmlschema.XMLSchema10), ('1.1', xmlschema.XMLSchema11)):
        schema = cls(xsd)
        for t in TYPED_TYPES[spec['tshard']::spec['tshards']]:
            for role in ('e', 'e2', 'f', 'd', 'l', 'u', 'c', 'c@a', 'c@b', 'c@c'):
                for vclass, value in values:
                    v = TYPED_VALID[t] if value is None else value
                    q = xml_escape(v)
                    if role == 'e2':
                        body = f'<t:e_{t}>{TYPED_VALID[t]}</t:e_{t}><t:e_{t}>{q}</t:e_{t}>'
                    elif '@' in role:
                        body = f'<t:c_{t} {role[-1]}="{q}">{TYPED_VALID[t]}</t:c_{t}>'
                    elif role == 'l':
                        body = f'<t:l_{t}>{TYPED_VALID[t]} {q}</t:l_{t}>'
                    else:
                        body = f'<t:{role}_{t}>{q}</t:{role}_{t}>'
                    text = f'<t:root xmlns:t="{TYPED_NS}" xmlns:xs="{D.XS}">{body}</t:root>'
                    case = {'typed': True, 'version': version, 'type': t, 'role': role, 'value': vclass, 'doc': text[:3000]}
                    res.nontrivial.add(env.h8(('typed', t, role, vclass)))
                    res.count('typed_roles')
                    drive(sent, xmlschema, schema, lambda: text, case)


def run_wildmsg(spec, res):
    """Content-model failures where a wildcard is among the expected particles: the message of the error is built from the
    wildcard's namespace constraint, whatever that is (a list, ##other, an empty list, notNamespace, notQName)."""
    xmlschema = env.activate_repo()
    sent = Sentinel(xmlschema, res)
    run_assertions(res, xmlschema, sent)
    T = 'urn:vk:wm'
    cons10 = ['namespace="##any"', 'namespace="##other"', 'namespace="##local"', 'namespace="##targetNamespace"',
              'namespace="urn:x urn:y"', 'namespace=""', 'namespace="##local urn:x"']
    cons11 = ['notNamespace="urn:x"', 'notNamespace="##local ##targetNamespace"', 'notNamespace="##local ##targetNamespace urn:x"',
              'namespace="##any" notQName="t:a x:b"', 'notQName="##defined"', 'namespace="##other" notQName="##definedSibling"']
    bodies = ['<t:a/>', '', '<t:a/><x:b xmlns:x="urn:x"/>', '<t:a/><n/>', '<t:a/><t:zz/>', '<x:b xmlns:x="urn:x"/>',
              '<t:a/><q:c xmlns:q="urn:q"/><q:c xmlns:q="urn:q"/><q:c xmlns:q="urn:q"/><q:c xmlns:q="urn:q"/>']
    for version, cls, cons in (('1.0', xmlschema.XMLSchema10, cons10), ('1.1', xmlschema.XMLSchema11, cons10 + cons11)):
        for con in cons:
            for pc in ('strict', 'lax', 'skip'):
                for shape in ('seq', 'choice', 'counted', 'all'):
                    any_ = f'<xs:any {con} processContents="{pc}"'
                    model = {'seq': f'<xs:sequence><xs:element name="a"/>{any_}/></xs:sequence>',
                             'choice': f'<xs:sequence><xs:element name="a"/><xs:choice>{any_}/><xs:element name="c"/></xs:choice></xs:sequence>',
                             'counted': f'<xs:sequence><xs:element name="a"/>{any_} minOccurs="2" maxOccurs="3"/></xs:sequence>',
                             'all': f'<xs:all><xs:element name="a"/>{any_}/></xs:all>'}[shape]
                    if shape == 'all' and version == '1.0':
                        continue
                    xsd = (f'<xs:schema xmlns:xs="{D.XS}" xmlns:t="{T}" xmlns:x="urn:x" targetNamespace="{T}" elementFormDefault="qualified">'
                           f'<xs:element name="r"><xs:complexType>{model}</xs:complexType></xs:element>'
                           f'<xs:element name="zz" type="xs:int"/></xs:schema>')
                    try:
                        schema = cls(xsd)
                    except xmlschema.XMLSchemaException:
                        res.count('wildmsg:schema_refused')
                        continue
                    for body in bodies:
                        text = f'<t:r xmlns:t="{T}">{body}</t:r>'
                        case = {'wildmsg': True, 'version': version, 'xsd': xsd, 'doc': text, 'constraint': con, 'shape': shape}
                        res.nontrivial.add(env.h8(('wildmsg', version, con, pc, shape, body)))
                        res.count('wildmsg:cases')
                        drive(sent, xmlschema, schema, lambda: text, case)


def run_assertions(res, xmlschema, sent):
    """XSD 1.1 assertions are evaluated by the XPath processor on a schema-annotated view of the element: malformed
    xsi attributes on the element or below it reach that processor."""
    T = 'urn:vk:as'
    xsd = (f'<xs:schema xmlns:xs="{D.XS}" xmlns:t="{T}" targetNamespace="{T}" elementFormDefault="qualified">'
           f'<xs:complexType name="P"><xs:sequence><xs:element name="a" type="xs:int"/><xs:element name="b" type="xs:int" minOccurs="0"/>'
           f'</xs:sequence><xs:attribute name="k" type="xs:int"/><xs:assert test="t:a le 10 and (not(t:b) or t:a le t:b)"/></xs:complexType>'
           f'<xs:complexType name="Q"><xs:complexContent><xs:extension base="t:P"><xs:assert test="@k"/></xs:extension></xs:complexContent></xs:complexType>'
           f'<xs:element name="r"><xs:complexType><xs:sequence><xs:element name="p" type="t:P" maxOccurs="unbounded"/></xs:sequence>'
           f'<xs:assert test="count(t:p) le 3"/></xs:complexType></xs:element></xs:schema>')
    schema = xmlschema.XMLSchema11(xsd)
    for where in ('r', 'p', 'a', 'b'):
        for name, value in XSI_ATTRS + [('type', 't:Q'), ('type', 't:P')]:
            at = {w: (f' xsi:{name}="{xml_escape(value)}"' if w == where else '') for w in 'rpab'}
            text = (f'<t:r xmlns:t="{T}" xmlns:xsi="{D.XSI}" xmlns:xs="{D.XS}"{at["r"]}><t:p k="1"{at["p"]}><t:a{at["a"]}>1</t:a>'
                    f'<t:b{at["b"]}>2</t:b></t:p><t:p><t:a>20</t:a></t:p></t:r>')
            case = {'assertions': True, 'xsd': xsd, 'doc': text, 'where': where, 'value': f'{name}={value}'}
            res.nontrivial.add(env.h8(('assertions', where, name, value)))
            res.count('assertions:cases')
            drive(sent, xmlschema, schema, lambda: text, case)


def xml_escape(v):
    return v.replace('&', '&amp;').replace('<', '&lt;').replace('"', '&quot;')


class Truncating(io.RawIOBase):
    """Non-seekable stream that ends (or errors) after n bytes."""

    def __init__(self, data, n, error=False):
        self._b = io.BytesIO(data[:n])
        self._error = error

    def readable(self):
        return True

    def seekable(self):
        return False

    def readinto(self, b):
        k = self._b.readinto(b)
        if k == 0 and self._error:
            raise OSError('stream broke')
        return k


def run_bytes(spec, res):
    xmlschema = env.activate_repo()
    sent = Sentinel(xmlschema, res)
    rng = env.rng_for(PROPERTY, spec['tier'], spec['seed'], 'bytes', spec['bshard'])
    schemas = {fam: xmlschema.XMLSchema10(xsd) for fam, xsd in ALL_FAMILIES.items()}
    for d in range(spec['docs']):
        fam = rng.choice(list(ALL_FAMILIES))
        doc = D.GENERATORS[fam](rng)
        text = D.render_doc(doc, fam, rng)
        data = text.encode('utf-8')
        schema = schemas[fam]
        variants = []
        for k in range(1, 64):
            variants.append((f'truncate', k, data[:len(data) * k // 64]))
        for _ in range(8):
            i = rng.randrange(len(data))
            b = bytearray(data)
            b[i] ^= 1 << rng.randrange(8)
            variants.append(('bitflip', i, bytes(b)))
        i, j = sorted(rng.sample(range(len(data)), 2))
        variants.append(('dup_chunk', i, data[:j] + data[i:j] + data[j:]))
        variants.append(('swap_chunk', i, data[:i] + data[j:] + data[i:j]))
        variants.append(('utf16_declared_utf8', 0, text.encode('utf-16')))
        variants.append(('latin1_bytes_declared_utf8', 0, text.replace('Chair', 'Chäir').encode('latin-1', 'replace')))
        variants.append(('bom_twice', 0, b'\xef\xbb\xbf\xef\xbb\xbf' + data))
        variants.append(('nul_inside', 0, data[:len(data) // 2] + b'\x00' + data[len(data) // 2:]))
        variants.append(('unknown_encoding_declared', 0, b'<?xml version="1.0" encoding="foo-8"?>' + data.split(b'?>', 1)[-1]))
        variants.append(('undecodable_bytes_in_text', 0, data.replace(b'>', b'>\xff\xfe', 1)))
        for kind, pos, blob in variants:
            case = {'family': fam, 'fault': kind, 'pos': pos, 'hex': blob[:4000].hex()}
            res.nontrivial.add(env.h8((fam, kind, pos if kind == 'truncate' else 0)))
            res.count('fault:' + kind)
            drive(sent, xmlschema, schema, lambda: blob, case)
            if kind not in ('truncate', 'bitflip') or pos % 16 == 0:
                # the same bytes through the defusing pre-scan and through a text-mode file object (the decoding of the
                # bytes is then the file object's, inside the library's read loop)
                sent.call('XMLResource:defuse_always', lambda: xmlschema.XMLResource(io.BytesIO(blob), defuse='always'), case)
                sent.call('iter_errors:defuse_always_lazy', lambda: list(schema.iter_errors(
                    xmlschema.XMLResource(io.BytesIO(blob), defuse='always', lazy=True))), case, lax=True, wellformed=False)
                with tempfile.NamedTemporaryFile(suffix='.xml') as tf:
                    tf.write(blob)
                    tf.flush()
                    for lazy in (False, True):
                        with open(tf.name, 'r', encoding='utf-8') as textfile:
                            sent.call('iter_errors:text_mode_file', lambda: list(schema.iter_errors(
                                xmlschema.XMLResource(textfile, lazy=lazy))), case, lax=True, wellformed=False)
            if kind == 'truncate' and pos % 8 == 0:
                for err in (False,):   # an exception raised by the source object itself is the source's, not the library's
                    sent.call('XMLResource:nonseekable', lambda: xmlschema.XMLResource(Truncating(data, len(blob), err)), case)
                    sent.call('iter_errors:nonseekable', lambda: list(schema.iter_errors(Truncating(data, len(blob), err))), case,
                              lax=True, wellformed=False)
        if len(res.samples) < 2:
            res.sample({'family': fam, 'byte_variants': len(variants), 'bytes': len(data)})


def run_corpus(spec, res):
    xmlschema = env.activate_repo()
    from lxml import etree
    from vk.gen import corpus as C
    sent = Sentinel(xmlschema, res)
    rng = env.rng_for(PROPERTY, spec['tier'], spec['seed'], 'corpus')
    for entry in C.instances():
        schema = C.schema_for(entry)
        if schema is None or os.path.getsize(entry['xml']) > 100000:
            continue
        try:
            tree = etree.parse(entry['xml'])
        except etree.XMLSyntaxError:
            continue
        label = os.path.relpath(entry['xml'], env.VERIF_REPO)
        for m in range(spec['mut']):
            t = copy.deepcopy(tree)
            elems = [e for e in t.getroot().iter() if isinstance(e.tag, str)]
            e = rng.choice(elems)
            kind = rng.choice(('text', 'attr', 'xsi', 'dup', 'del'))
            vclass = ''
            if kind == 'text':
                vclass, e.text = rng.choice(HOSTILE)
            elif kind == 'attr' and e.attrib:
                k = rng.choice(list(e.attrib))
                vclass, e.attrib[k] = rng.choice(HOSTILE)
            elif kind == 'xsi':
                name, value = rng.choice(XSI_ATTRS)
                e.set('{%s}%s' % (D.XSI, name), value)
                vclass = f'{name}={value}'
            elif kind == 'dup' and e.getparent() is not None:
                e.addnext(copy.deepcopy(e))
            elif kind == 'del' and e.getparent() is not None:
                e.getparent().remove(e)
            try:
                blob = etree.tostring(t, xml_declaration=True, encoding='UTF-8')
            except (ValueError, etree.SerialisationError):
                continue
            case = {'corpus': label, 'mutation': kind, 'value': vclass, 'hex': blob[:6000].hex()}
            res.nontrivial.add(env.h8((label, kind, vclass)))
            res.count('corpus_mutation:' + kind)
            drive(sent, xmlschema, schema, lambda: blob, case)
        res.count('corpus:documents')


# ---------------------------------------------------------------------------------------------
DEEP_XSD = f'''<xs:schema xmlns:xs="{D.XS}">
  <xs:element name="n"><xs:complexType><xs:sequence>
    <xs:element ref="n" minOccurs="0" maxOccurs="unbounded"/>
  </xs:sequence><xs:attribute name="a" type="xs:int"/></xs:complexType></xs:element>
</xs:schema>'''


def nested(depth, shape='plain'):
    """A document of exactly `depth` nested element levels; comments and PIs do not count as levels."""
    body = '<n>' * depth + '</n>' * depth
    if shape == 'prolog_pi':
        return '<?xml-stylesheet href="x.css"?>' + body
    if shape == 'prolog_comments':
        return '<!-- a --><!-- b --><!-- c -->' + body
    if shape == 'inner_comments':
        k = min(3, depth)
        return '<n><!-- c -->' * k + '<n>' * (depth - k) + '</n>' * depth
    if shape == 'inner_pi':
        return '<n><?p i?>' + '<n>' * (depth - 1) + '</n>' * depth
    if shape == 'trailing_comment':
        return body + '<!-- end -->'
    return body


DEPTH_SHAPES = ('plain', 'prolog_pi', 'prolog_comments', 'inner_comments', 'inner_pi', 'trailing_comment')


def refused_settings(res, xmlschema, limits, name, configured):
    """Settings the module refuses must leave the configured limit in force: the sweeps that follow run after them."""
    for bad in (0, -3, 'many', None, 2.5):
        res.count('limit_setting:refused_values_tried')
        try:
            setattr(limits, name, bad)
        except (xmlschema.XMLSchemaException, TypeError, ValueError):
            pass
        else:
            res.count(f'limit_setting:accepted:{type(bad).__name__}')
            setattr(limits, name, configured)
            continue
        if getattr(limits, name) != configured:
            res.violation(f'refused-limit-setting-changed-the-limit:{name}', {'limit': name, 'value': repr(bad)},
                          f'{name} = {bad!r} was refused but the module now reports {getattr(limits, name)!r} instead of {configured}')


def run_depth(spec, res):
    """Documents of depth limit-1, limit, limit+1 under MAX_XML_DEPTH = limit (process-global setting)."""
    xmlschema = env.activate_repo()
    from xmlschema import limits
    from xmlschema.exceptions import XMLResourceExceeded
    sent = Sentinel(xmlschema, res)
    L = spec['limit']
    limits.MAX_XML_DEPTH = L
    refused_settings(res, xmlschema, limits, 'MAX_XML_DEPTH', L)
    schema = xmlschema.XMLSchema10(DEEP_XSD)
    for depth in sorted({1, 2, L - 1, L, L + 1, L + 5} | ({300, 450, 520, 700} if L >= 1000 else set())):
        if depth < 1:
            continue
        for shape in (DEPTH_SHAPES if abs(depth - L) <= 5 else ('plain',)):
            depth_case(res, xmlschema, sent, schema, XMLResourceExceeded, L, depth, shape, spec['lazy'])


def depth_case(res, xmlschema, sent, schema, XMLResourceExceeded, L, depth, shape, lazy):
    data = nested(depth, shape).encode()
    within = depth <= L
    case = {'depth_limit': L, 'depth': depth, 'lazy': lazy, 'shape': shape}
    res.nontrivial.add(env.h8(('depth', L, depth, lazy, shape)))
    res.count('limit_sweep:depth')

    def make():
        return xmlschema.XMLResource(io.BytesIO(data), lazy=lazy)
    r = sent.call('XMLResource', make, case)
    outcome = r
    if lazy and r[0] == 'return':
        # a lazy resource only reads the root at construction: iterate it to meet the limit
        outcome = sent.call('lazy_iter', lambda: sum(1 for _ in make().iter()), case)
    exceeded = outcome[0] == 'library' and isinstance(outcome[1], XMLResourceExceeded)
    if within and exceeded:
        res.violation('depth-within-limit-refused', case,
                      f'MAX_XML_DEPTH={L}: {shape} document of depth {depth} refused: {str(outcome[1])[:120]}')
    elif not within and not exceeded:
        res.violation('depth-beyond-limit-not-refused-with-XMLResourceExceeded', case,
                      f'MAX_XML_DEPTH={L}: {shape} document of depth {depth}: outcome {outcome[0]} {type(outcome[1]).__name__}')
    else:
        res.count('limit_sweep:depth_agree_' + ('within' if within else 'beyond'))
    if within and not exceeded and shape == 'plain':
        # the whole pipeline on a document within the limits
        v = sent.call('is_valid', lambda: schema.is_valid(make()), case)
        if v[0] == 'return' and v[1] is not True:
            res.violation('deep-valid-document-rejected', case, f'depth {depth}: is_valid -> {v[1]}')
        sent.call('iter_errors', lambda: list(schema.iter_errors(make())), case, lax=True)
        sent.call('decode_lax', lambda: schema.decode(make(), validation='lax'), case, lax=True)
    if len(res.samples) < 3:
        res.sample({'depth_limit': L, 'depth': depth, 'shape': shape, 'lazy': lazy, 'outcome': outcome[0]})


def run_elements(spec, res):
    xmlschema = env.activate_repo()
    from xmlschema import limits
    from xmlschema.exceptions import XMLResourceExceeded
    sent = Sentinel(xmlschema, res)
    L = spec['limit']
    limits.MAX_XML_ELEMENTS = L
    refused_settings(res, xmlschema, limits, 'MAX_XML_ELEMENTS', L)
    for n in (1, L - 1, L, L + 1, L + 7):
        if n < 1:
            continue
        data = ('<n>' + '<n/>' * (n - 1) + '</n>').encode()
        within = n <= L
        case = {'element_limit': L, 'elements': n}
        res.nontrivial.add(env.h8(('elements', L, n)))
        res.count('limit_sweep:elements')
        r = sent.call('XMLResource', lambda: xmlschema.XMLResource(io.BytesIO(data)), case)
        exceeded = r[0] == 'library' and isinstance(r[1], XMLResourceExceeded)
        if within and exceeded:
            res.violation('elements-within-limit-refused', case, f'MAX_XML_ELEMENTS={L}: {n} elements refused')
        elif not within and not exceeded:
            res.violation('elements-beyond-limit-not-refused', case, f'MAX_XML_ELEMENTS={L}: {n} elements: {r[0]}')
        else:
            res.count('limit_sweep:elements_agree_' + ('within' if within else 'beyond'))
        # lazy resources have no element limit by documentation: they must process the document
        lz = sent.call('lazy_iter', lambda: sum(1 for _ in xmlschema.XMLResource(io.BytesIO(data), lazy=True).iter()), case)
        if lz[0] == 'library' and isinstance(lz[1], XMLResourceExceeded):
            res.violation('lazy-resource-hit-element-limit', case, f'{n} elements')
        res.sample({'element_limit': L, 'elements': n, 'outcome': r[0]}) if len(res.samples) < 3 else None


def run_shard(spec, res):
    {'fuzz': run_fuzz, 'typed': run_typed, 'wildmsg': run_wildmsg, 'bytes': run_bytes, 'corpus': run_corpus, 'depth': run_depth, 'elements': run_elements}[spec['kind']](spec, res)


def finalize(res, tier):
    c = res.counters
    reasons = []
    if not c.get('inputs:wellformed') or not c.get('inputs:not_wellformed_or_refused'):
        reasons.append('no well-formed or no not-well-formed input was driven')
    if not c.get('limit_sweep:depth') or not c.get('limit_sweep:elements'):
        reasons.append('limit sweeps did not run')
    if not any(k.startswith('outcome:iter_errors:return') for k in c):
        reasons.append('iter_errors never returned')
    return {'inconclusive': reasons}


def replay(case):
    xmlschema = env.activate_repo()
    from vk.result import Result
    res = Result()
    sent = Sentinel(xmlschema, res)
    if 'depth_limit' in case:
        run_depth({'limit': case['depth_limit'], 'lazy': case['lazy']}, res)
    elif 'element_limit' in case:
        run_elements({'limit': case['element_limit']}, res)
    elif 'corpus' in case:
        from vk.gen import corpus as C
        for entry in C.instances():
            if entry['xml'].endswith(case['corpus'].split('tests/')[-1]):
                blob = bytes.fromhex(case['hex'])
                drive(sent, xmlschema, C.schema_for(entry), lambda: blob, case)
                break
    elif case.get('assertions'):
        drive(sent, xmlschema, xmlschema.XMLSchema11(case['xsd']), lambda: case['doc'], case)
    elif case.get('wildmsg'):
        cls = xmlschema.XMLSchema11 if case.get('version') == '1.1' else xmlschema.XMLSchema10
        drive(sent, xmlschema, cls(case['xsd']), lambda: case['doc'], case)
    elif case.get('typed'):
        cls = xmlschema.XMLSchema11 if case.get('version') == '1.1' else xmlschema.XMLSchema10
        drive(sent, xmlschema, cls(typed_xsd()), lambda: case['doc'], case)
    else:
        cls = xmlschema.XMLSchema11 if case.get('version') == '1.1' else xmlschema.XMLSchema10
        schema = cls(ALL_FAMILIES[case['family']])
        src = case['doc'] if 'doc' in case else bytes.fromhex(case['hex'])
        drive(sent, xmlschema, schema, lambda: src, case)
    for v in res.violations:
        print(v['mechanism'], v['detail'][:300])
    return bool(res.violations)
