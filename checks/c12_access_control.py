"""C12 - resource access control confines every fetch to the allowed class of locations."""
import io
import os
import tempfile
import urllib.request
import urllib.response
import warnings

from vk import env
from vk.mon import audit

PROPERTY = 'C12'
LEVEL = 'exploration'
EXHAUSTIVE = {'quick': True, 'thorough': True}
RULE = ('exhaustive catalogue: allow mode {all, none, local, remote, sandbox} x main source kind {path, file URL, text + '
        'base_url, open file, remote URL through a stub opener, text + remote base_url} x mechanism {include, redefine, override (1.1), import, '
        'locations= argument, uri_mapper mapping, uri_mapper callable, xsi:schemaLocation hint on a nested element, namespace loaded on '
        'demand from the locations argument, package-level function with hints on the document root} x target '
        'class {inside the sandbox, sub-directory, sibling directory sharing the sandbox name as prefix, other sibling, above '
        'the base, remote http / https / ftp} x spelling {relative, ./x, sub/../x, chains of .., absolute path, file:///, '
        'file://localhost/, percent-encoded dots and separators, upper-case scheme, backslashes}; observed through interpreter '
        'audit events (open, urllib.Request, socket.*) and a stub OpenerDirector that records every URL it is asked for; a case '
        '= one cell of the catalogue; non-trivial = the target is denied by the mode (something must be blocked); the thorough '
        'tier repeats the catalogue on a second fixture layout')
RULE += (' ' + 'Spellings include dot segments percent-escaped two and three levels deep (%252e%252e, %25252e%25252e).')
RULE += (' ' + 'Absolute spellings that start with the sandbox directory and leave it through dot segments.')
ASSUMPTIONS = [
    'the fixture tree is symlink-free and lives in a fresh temporary directory whose name is no prefix of anything else',
    'opens of the package\'s own schemas, of interpreter files and of translation catalogues are whitelisted by path prefix',
    'no real network exists and none is attempted: remote-looking URLs are served by a stub opener; a socket event is itself a violation',
    'a blocked location may fail the build (XMLResourceBlocked) or be skipped with a warning; both count as "reported"',
]
ANCHORS = {
    'xmlschema/resources/xml_resource.py': [(166, 189), (318, 330)],
    'xmlschema/utils/urls.py': [(24, 113), (205, 277)],
    'xmlschema/loaders.py': [(169, 214)],
    'xmlschema/settings.py': [(208, 285)],
}
SHARD_TIMEOUT = {'quick': 900, 'thorough': 3600}
LEVEL = 'exploration'
LEVEL_TEXT = ('Event-trace runtime monitoring over an exhaustively enumerated catalogue: while the real library builds schemas / '
              'validates instances under each allow mode, interpreter audit events and a recording stub opener show every file '
              'and URL actually opened; any opened location outside the class the mode allows, or any marker element of a '
              'denied file in the result, is a violation.')
LEVEL_NOTE = ('Trusted: sys.addaudithook event stream (open / urllib.Request / socket), realpath classification against the '
              'fixture tree, the stub opener. The catalogue is finite and fully enumerated in both tiers.')
TECHNIQUE = 'runtime monitoring: event-trace oracle (audit hooks + recording opener) over an exhaustive allow-mode x mechanism x spelling catalogue'

XS = 'http://www.w3.org/2001/XMLSchema'
XSI = 'http://www.w3.org/2001/XMLSchema-instance'
MODES = ('all', 'none', 'local', 'remote', 'sandbox')
MAIN_KINDS = ('path', 'file_url', 'text', 'open_file', 'remote_url', 'text_remote_base')
MECHS = ('include', 'redefine', 'override', 'import', 'locations', 'mapper_dict', 'mapper_call', 'hint_child', 'hint_demand', 'hint_pkg', 'hint_text', 'import_second', 'import_second_safe', 'hint_child_nobase')
IMP_MECHS = ('import', 'locations', 'hint_child', 'hint_demand', 'hint_pkg', 'hint_text', 'import_second', 'import_second_safe', 'hint_child_nobase')
REMOTE_BASE = 'http://vk.example/base/sand/'


def plan(tier, seed):
    specs = []
    for layout in ((0,) if tier == 'quick' else (0, 1)):
        for mode in MODES:
            for mk in MAIN_KINDS:
                specs.append({'kind': 'cells', 'layout': layout, 'mode': mode, 'main_kind': mk})
    return specs


def xsd(marker, tns, extra=''):
    return (f'<xs:schema xmlns:xs="{XS}" targetNamespace="{tns}" elementFormDefault="qualified">{extra}'
            f'<xs:element name="{marker}" type="xs:string"/></xs:schema>')


class Fixture:
    """base/<sand>/{main, inc, imp}.xsd ... ; every target exists as include flavour and import flavour."""

    def __init__(self, layout):
        self.root = os.path.realpath(tempfile.mkdtemp(prefix='vk12q7z-'))
        self.sandname = 'sand' if layout == 0 else 'a b'
        self.base = os.path.join(self.root, 'base')
        self.sand = os.path.join(self.base, self.sandname)
        self.targets = {
            'inside': os.path.join(self.sand, 'T.xsd'),
            'inside_sub': os.path.join(self.sand, 'sub', 'T.xsd'),
            'prefix_sibling': os.path.join(self.base, self.sandname + '_evil', 'T.xsd'),
            'sibling': os.path.join(self.base, 'other', 'T.xsd'),
            'above': os.path.join(self.base, 'T.xsd'),
        }
        self.files = {}
        for cls, tpl in self.targets.items():
            os.makedirs(os.path.dirname(tpl), exist_ok=True)
            for flavour, tns in (('inc', 'urn:main'), ('imp', 'urn:imp')):
                p = tpl.replace('T.xsd', flavour + '.xsd')
                with open(p, 'w') as f:
                    f.write(xsd('m_' + cls, tns))
                self.files[os.path.realpath(p)] = cls
        self.remote = {}
        for scheme in ('http', 'https', 'ftp'):
            for flavour, tns in (('inc', 'urn:main'), ('imp', 'urn:imp')):
                self.remote[f'{scheme}://vk.example/r/{flavour}.xsd'] = xsd('m_remote_' + scheme, tns)
        self.main_path = os.path.join(self.sand, 'main.xsd')

    def target(self, cls, flavour):
        if cls.startswith('remote_'):
            return f'{cls[7:]}://vk.example/r/{flavour}.xsd'
        return self.targets[cls].replace('T.xsd', flavour + '.xsd')

    def spellings(self, cls, flavour):
        """[(name, location string)] for a target, relative to the main schema's directory."""
        t = self.target(cls, flavour)
        if cls.startswith('remote_'):
            return [('url', t)]
        rel = os.path.relpath(t, self.sand)
        q = urllib.request.pathname2url
        out = [('relative', q(rel)), ('dot', './' + q(rel)), ('subdotdot', 'sub/../' + q(rel)),
               ('chain', '../' + q(self.sandname) + '/' + q(rel)),
               ('absolute', t), ('file3', 'file://' + q(t)),
               # absolute file URLs (and paths) that start with the sandbox directory and leave it through dot segments
               ('file3_via_sand', 'file://' + q(self.sand) + '/' + q(rel)), ('file3_via_sub', 'file://' + q(self.sand) + '/sub/../' + q(rel)),
               ('absolute_via_sand', self.sand + '/sub/../' + rel), ('file_localhost', 'file://localhost' + q(t)),
               ('FILE_upper', 'FILE://' + q(t)), ('slashes3', '//' + t), ('slashes4', '///' + t), ('file_slashes5', 'file://///' + q(t).lstrip('/')),
               ('pct_dots', q(rel).replace('..', '%2E%2E') if '..' in rel else './%2E/' + q(rel)),
               # dot segments escaped one and two levels deeper than a single decoding undoes (a location is decoded, collapsed,
               # encoded again, compared, and decoded once more when it is opened)
               ('pct2_dots', q(rel).replace('..', '%252e%252e') if '..' in rel else None),
               ('pct3_dots', q(rel).replace('..', '%25252e%25252e') if '..' in rel else None),
               ('dot_pct2', q(rel).replace('..', '.%252e') if '..' in rel else None),
               ('sub_pct2', 'sub/%252e%252e/' + q(rel)),
               ('pct_slash', q(rel).replace('/', '%2F') if '/' in rel else None),
               ('backslash', rel.replace('/', '\\') if '/' in rel else None)]
        return [(n, s) for n, s in out if s is not None]


_file_opener = []


def file_opener():
    """An opener that only knows file: URLs (building the default one costs 30 ms of TLS setup)."""
    if not _file_opener:
        o = urllib.request.OpenerDirector()
        o.add_handler(urllib.request.FileHandler())
        o.add_handler(urllib.request.UnknownHandler())
        _file_opener.append(o)
    return _file_opener[0]


class RecordingOpener(urllib.request.OpenerDirector):
    """Records every URL; serves remote-looking fixture URLs; delegates file: URLs to the default opener."""

    def __init__(self, fixture):
        super().__init__()
        self.fixture = fixture
        self.asked = []
        self._default = file_opener()

    def open(self, fullurl, data=None, timeout=None):
        url = fullurl if isinstance(fullurl, str) else fullurl.full_url
        self.asked.append(url)
        low = url.lower()
        if low.startswith('file:'):
            return self._default.open(url)
        body = self.fixture.remote.get(url)
        if body is None and url == REMOTE_BASE + 'main.xsd':
            # the main schema served remotely
            body = getattr(self, 'main_body', None)
        if body is None:
            raise urllib.error.URLError('stub: not found ' + url)
        return urllib.response.addinfourl(io.BytesIO(body.encode()), {}, url)


TARGET_CLASSES = ('inside', 'inside_sub', 'prefix_sibling', 'sibling', 'above', 'remote_http', 'remote_https', 'remote_ftp')


def allowed(mode, cls, main_kind):
    if mode == 'all':
        return True
    if mode == 'none':
        return False
    if mode == 'local':
        return not cls.startswith('remote_')
    if mode == 'remote':
        return cls.startswith('remote_')
    # sandbox
    return cls in ('inside', 'inside_sub')


def main_denied(mode, main_kind):
    """Is opening the main source itself outside what the mode allows?"""
    if main_kind in ('text', 'open_file', 'text_remote_base'):
        return False
    local = main_kind in ('path', 'file_url')
    return mode == 'none' or (mode == 'remote' and local) or (mode in ('local', 'sandbox') and not local)


def main_text(mech, loc, first=None):
    if mech in ('import_second', 'import_second_safe'):
        # the namespace is already loaded (from a location inside the sandbox) when the second location is met
        body = f'<xs:import namespace="urn:imp" schemaLocation="{first}"/><xs:import namespace="urn:imp" schemaLocation="{loc}"/>'
    elif mech == 'include':
        body = f'<xs:include schemaLocation="{loc}"/>'
    elif mech == 'redefine':
        body = f'<xs:redefine schemaLocation="{loc}"/>'
    elif mech == 'override':
        body = f'<xs:override schemaLocation="{loc}"/>'
    elif mech == 'import':
        body = f'<xs:import namespace="urn:imp" schemaLocation="{loc}"/>'
    elif mech == 'locations':
        body = '<xs:import namespace="urn:imp"/>'
    elif mech in ('mapper_dict', 'mapper_call'):
        body = '<xs:include schemaLocation="urn:alias:target"/>'
    else:
        body = ''
    # the root admits elements of other namespaces laxly: hinted namespaces are loaded when such a child is met
    return (f'<xs:schema xmlns:xs="{XS}" targetNamespace="urn:main" elementFormDefault="qualified">{body}'
            f'<xs:element name="root"><xs:complexType mixed="true"><xs:sequence>'
            f'<xs:any namespace="##other" processContents="lax" minOccurs="0" maxOccurs="unbounded"/>'
            f'</xs:sequence></xs:complexType></xs:element></xs:schema>')


def esc(s):
    return s.replace('&', '&amp;').replace('"', '&quot;').replace('<', '&lt;')


def run_cell(res, xmlschema, fx, mode, main_kind, mech, cls, spell_name, loc):
    from xmlschema.exceptions import XMLResourceBlocked
    flavour = 'imp' if mech in IMP_MECHS else 'inc'
    version_cls = xmlschema.XMLSchema11 if mech == 'override' else xmlschema.XMLSchema10
    opener = RecordingOpener(fx)
    first = esc(urllib.request.pathname2url(os.path.relpath(fx.target('inside', 'imp'), fx.sand)))
    text = main_text(mech, esc(loc), first)
    opener.main_body = text
    with open(fx.main_path, 'w') as f:
        f.write(text)
    kwargs = {'allow': mode, 'opener': opener, 'validation': 'lax'}
    if mech in ('locations', 'hint_demand'):
        kwargs['locations'] = [('urn:imp', loc)]
    if mech == 'import_second_safe':
        from xmlschema.loaders import SafeSchemaLoader
        kwargs['loader_class'] = SafeSchemaLoader
    if mech == 'mapper_dict':
        kwargs['uri_mapper'] = {'urn:alias:target': loc}
    if mech == 'mapper_call':
        kwargs['uri_mapper'] = lambda u: loc if u == 'urn:alias:target' else u
    fobj = None
    if main_kind == 'path':
        source = fx.main_path
    elif main_kind == 'file_url':
        source = 'file://' + urllib.request.pathname2url(fx.main_path)
    elif main_kind == 'text':
        source = text
        kwargs['base_url'] = fx.sand
    elif main_kind == 'open_file':
        fobj = source = open(fx.main_path, 'rb')
        kwargs['base_url'] = fx.sand
    elif main_kind == 'text_remote_base':
        # text with a remote base URL: relative locations are remote URLs below that base
        source = text
        kwargs['base_url'] = REMOTE_BASE.rstrip('/')
    else:
        source = REMOTE_BASE + 'main.xsd'
        if mode == 'sandbox':
            kwargs['base_url'] = fx.sand
    outcome = 'built'
    markers = set()
    schema = None
    child = 'm_' + cls
    doc_path = os.path.join(fx.sand, 'doc.xml')
    if mech == 'hint_pkg':
        with open(doc_path, 'w') as f:
            f.write(f'<root xmlns="urn:main" xmlns:xsi="{XSI}" xsi:schemaLocation="urn:imp {esc(loc)}">'
                    f'<i:{child} xmlns:i="urn:imp">v</i:{child}></root>')
    with audit.window() as events, warnings.catch_warnings():
        warnings.simplefilter('ignore')
        try:
            schema = version_cls(source, **kwargs)
            if mech == 'hint_child':
                # a hint on a nested element is used for loading the namespace dynamically
                inst = (f'<root xmlns="urn:main" xmlns:xsi="{XSI}"><i:{child} xmlns:i="urn:imp" '
                        f'xsi:schemaLocation="urn:imp {esc(loc)}">v</i:{child}></root>')
                r = xmlschema.XMLResource(inst, base_url=fx.sand, allow=mode, opener=opener)
                list(schema.iter_errors(r, use_location_hints=True))
            elif mech == 'hint_child_nobase':
                # the same, with an instance resource built by the caller without a base and without an access mode of its
                # own: the schema's mode decides about the hinted location
                inst = (f'<root xmlns="urn:main" xmlns:xsi="{XSI}"><i:{child} xmlns:i="urn:imp" '
                        f'xsi:schemaLocation="urn:imp {esc(loc)}">v</i:{child}></root>')
                list(schema.iter_errors(xmlschema.XMLResource(inst, opener=opener), use_location_hints=True))
            elif mech == 'hint_demand':
                # the namespace is known only through the `locations` argument (no xs:import): it is tried at build
                # time and, if that failed, again on demand when the wildcard meets a child of that namespace
                inst = f'<root xmlns="urn:main"><i:{child} xmlns:i="urn:imp">v</i:{child}></root>'
                r = xmlschema.XMLResource(inst, base_url=fx.sand, allow=mode, opener=opener)
                list(schema.iter_errors(r))
            elif mech == 'hint_pkg':
                # the package-level function: document and schema by path, hints on the document root
                list(xmlschema.iter_errors(doc_path, schema=source if main_kind != 'open_file' else fx.main_path,
                                           cls=version_cls, allow=mode, opener=opener, use_location_hints=True,
                                           **({'base_url': kwargs['base_url']} if 'base_url' in kwargs else {})))
            elif mech == 'hint_text':
                # the hints of a document given as text, without a URL or a base: fetch_schema_locations() applies
                # `allow` to the hinted locations (under 'sandbox' there is no base to be inside of: refusal expected)
                inst = (f'<root xmlns="urn:main" xmlns:xsi="{XSI}" xsi:schemaLocation="urn:imp {esc(loc)}">'
                        f'<i:{child} xmlns:i="urn:imp">v</i:{child}></root>')
                xmlschema.fetch_schema_locations(inst, allow=mode)
        except XMLResourceBlocked:
            outcome = 'blocked'
        except xmlschema.XMLSchemaException as e:
            outcome = 'error:' + type(e).__name__
        except (OSError, ValueError) as e:
            outcome = 'oserror:' + type(e).__name__
        finally:
            if fobj is not None:
                fobj.close()
    if schema is not None:
        for name in list(schema.maps.elements):
            if name.startswith('{urn:main}m_') or name.startswith('{urn:imp}m_'):
                markers.add(name.split('}m_')[1])
    touched = set()
    for p in audit.opened_paths(events):
        c = fx.files.get(p)
        if c:
            touched.add(c)
        elif p == os.path.realpath(doc_path):
            if mode in ('none', 'remote'):
                touched.add('unexpected:document-of-the-call')
        elif p.startswith(fx.root) and os.path.realpath(fx.main_path) != p and os.path.isfile(p):
            touched.add('unexpected:' + os.path.relpath(p, fx.root))
    main_url = REMOTE_BASE + 'main.xsd' if main_kind == 'remote_url' else None
    for url in opener.asked:
        low = url.lower()
        if low.startswith(('http:', 'https:', 'ftp:')) and url != main_url:
            # every remote request other than the main source itself, also below the remote base
            touched.add('remote_' + low.split(':')[0])
    sockets = [e for e in events if e[0].startswith('socket')]
    main_opened = any(os.path.realpath(fx.main_path) == p for p in audit.opened_paths(events)) or \
        any(u.startswith(REMOTE_BASE) for u in opener.asked)
    return outcome, markers, touched, sockets, main_opened


def run_shard(spec, res):
    xmlschema = env.activate_repo()
    fx = Fixture(spec['layout'])
    mode, main_kind = spec['mode'], spec['main_kind']
    for mech in MECHS:
        for cls in TARGET_CLASSES:
            flavour = 'imp' if mech in IMP_MECHS else 'inc'
            for spell_name, loc in fx.spellings(cls, flavour):
                cell = {'layout': spec['layout'], 'mode': mode, 'main_kind': main_kind, 'mech': mech, 'target': cls,
                        'spelling': spell_name, 'location': loc}
                ok = allowed(mode, cls, main_kind)
                if mech in ('hint_pkg', 'hint_text') and cls.startswith('remote_') and ok:
                    # fetch_schema_locations() does not take the stub opener: an allowed remote hint would go to the
                    # network. Remote hints are exercised through this route only where the mode denies them.
                    res.count('skip:hint_pkg:allowed_remote_target_needs_network')
                    continue
                res.case(env.h8((spec['layout'], mode, main_kind, mech, cls, spell_name)) if not ok else None)
                res.count('cells')
                try:
                    outcome, markers, touched, sockets, main_opened = run_cell(res, xmlschema, fx, mode, main_kind, mech, cls, spell_name, loc)
                except Exception as e:   # harness-visible foreign exception
                    res.violation(f'foreign-exception:{type(e).__name__}', cell, f'{cell}: {e!r}'[:300])
                    continue
                res.count('outcome:' + outcome.split(':')[0])
                for t in touched:
                    res.count('touched:' + ('allowed' if not t.startswith('unexpected') and allowed(mode, t, main_kind) else 'denied'))
                if sockets:
                    res.violation('socket-event', cell, f'{cell}: {sockets[:2]}')
                if main_opened and main_denied(mode, main_kind):
                    res.violation(f'main-source-opened-although-denied:{mode}:{main_kind}', cell, f'{cell}')
                bad = sorted(t for t in touched if t.startswith('unexpected') or not allowed(mode, t, main_kind))
                if bad:
                    res.violation(f'denied-location-opened:{mode}:{"+".join(bad)[:60]}:{spell_name}', cell,
                                  f'allow={mode} main={main_kind} {mech} -> {cls} spelled {spell_name} ({loc}): opened {bad}; outcome {outcome}')
                    continue
                badm = sorted(m for m in markers if not allowed(mode, m, main_kind))
                if badm:
                    res.violation(f'denied-content-in-result:{mode}:{"+".join(badm)[:60]}', cell,
                                  f'allow={mode} main={main_kind} {mech} -> {cls} ({loc}): marker elements {badm} present')
                    continue
                if not ok:
                    res.count('denied_target:not_opened')
                elif cls in touched or ('remote_' + cls[7:] if cls.startswith('remote_') else cls) in touched:
                    res.count('allowed_target:opened')
                    res.count('allowed_target:opened:' + mech)
                else:
                    res.count('allowed_target:not_opened:' + spell_name)
                if len(res.samples) < 2:
                    res.sample(dict(cell, outcome=outcome, touched=sorted(touched), markers=sorted(markers)))


def finalize(res, tier):
    c = res.counters
    reasons = []
    if not c.get('allowed_target:opened'):
        reasons.append('no allowed target was ever opened: the audit monitor saw nothing')
    if not c.get('denied_target:not_opened'):
        reasons.append('no denied target was exercised')
    for mech in MECHS:
        if not c.get('allowed_target:opened:' + mech):
            reasons.append(f'mechanism {mech} never opened an allowed target: its cells decide nothing')
    if not c.get('outcome:blocked'):
        reasons.append('no blocked outcome observed')
    return {'inconclusive': reasons}


def replay(case):
    xmlschema = env.activate_repo()
    from vk.result import Result
    res = Result()
    fx = Fixture(case['layout'])
    flavour = 'imp' if case['mech'] in IMP_MECHS else 'inc'
    loc = dict(fx.spellings(case['target'], flavour))[case['spelling']]
    outcome, markers, touched, sockets, main_opened = run_cell(res, xmlschema, fx, case['mode'], case['main_kind'], case['mech'],
                                                               case['target'], case['spelling'], loc)
    print('outcome', outcome, 'markers', sorted(markers), 'touched', sorted(touched), 'main opened', main_opened)
    bad = [t for t in touched if t.startswith('unexpected') or not allowed(case['mode'], t, case['main_kind'])]
    badm = [m for m in markers if not allowed(case['mode'], m, case['main_kind'])]
    return bool(bad or badm or sockets or (main_opened and main_denied(case['mode'], case['main_kind'])))
