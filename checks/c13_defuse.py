"""C13 - defused parsing refuses every entity declaration before any expansion or fetch."""
import io
import os
import tempfile
import urllib.request
import urllib.response
import warnings

from vk import env
from vk.mon import audit

PROPERTY = 'C13'
LEVEL = 'exploration'
EXHAUSTIVE = {'quick': True, 'thorough': True}
RULE = ('exhaustive catalogue: defuse mode {always, remote, nonlocal, never} x source kind {str, bytes, StringIO, BytesIO, text '
        'file, binary file, non-seekable raw stream, non-seekable buffered stream, path, file URL, remote URL through a stub '
        'opener} x DTD payload {internal entity (used / unused), external SYSTEM / PUBLIC entity, parameter entity (internal / '
        'external), unparsed entity + notation, external DTD subset (SYSTEM / PUBLIC), nested entities, small billion-laughs, '
        'standalone documents, references to undeclared parameter entities, declaration after a 70 KiB prolog, UTF-16 / BOM / declared-encoding variants, DOCTYPE without entities, no DOCTYPE} x '
        'role {instance, main schema, included schema, imported schema} x base_url {none, remote, local} for sources without a URL; a case = one cell; non-trivial = defusing applies and '
        'the payload declares an entity or references an external subset; thorough adds lazy resources and a 1 MiB prolog')
ASSUMPTIONS = [
    'whether defusing applies is computed from the documented rule (mode x locality of the base URL), not from is_defused()',
    'when defusing does not apply nothing is claimed except "no foreign exception"',
    'the entity-expansion marker and the fixture files of external identifiers are unique strings / paths, so any occurrence is an expansion / fetch',
]
ANCHORS = {
    'xmlschema/resources/sax.py': [(22, 92)],
    'xmlschema/resources/xml_resource.py': [(277, 281), (431, 495)],
    'xmlschema/utils/streams.py': [(1, 145)],
}
SHARD_TIMEOUT = {'quick': 900, 'thorough': 3600}
LEVEL_TEXT = ('Event-trace runtime monitoring over an exhaustive payload x channel x mode x role catalogue: for every cell where '
              'defusing applies, the library must raise its forbidden-resource error, a PY_START probe on the real parse entry '
              'points must show zero parse starts before the raise, audit hooks must show no fetch of the entity\'s system '
              'identifier, and the expansion marker must not occur in any parsed tree; clean documents must parse to the same '
              'tree with and without defusing.')
LEVEL_NOTE = 'Trusted: audit hook stream, sys.monitoring PY_START counters, canonical tree comparison. Finite catalogue, fully enumerated.'
TECHNIQUE = 'runtime monitoring: event-trace oracle (parse-entry probes + audit hooks + exception class) over an exhaustive payload catalogue'

XS = 'http://www.w3.org/2001/XMLSchema'
MARK = 'ZZEXPANDEDMARKERZZ'
MODES = ('always', 'remote', 'nonlocal', 'never')
KINDS = ('xmldocument_parse', 'str', 'bytes', 'StringIO', 'BytesIO', 'text_file', 'binary_file', 'raw_nonseekable', 'buffered_nonseekable',
         'path', 'file_url', 'remote_url', 'remote_url_nopath', 'remote_url_query', 'remote_url_port', 'remote_url_root', 'remote_response',
         'remote_url_two_faced', 'remote_url_two_faced_wrapped')
# remote URLs with an empty path component (the base URL of such a resource is not a directory URL)
REMOTE_SHAPES = {'remote_url_nopath': 'http://vk.example', 'remote_url_query': 'http://vk.example?doc=1',
                 'remote_url_port': 'http://vk.example:8080', 'remote_url_root': 'http://vk.example/'}
ROLES = ('instance', 'main_schema', 'included_schema', 'imported_schema')
REMOTE = 'http://vk.example/d/'


def plan(tier, seed):
    specs = []
    for mode in MODES:
        for role in ROLES:
            specs.append({'kind': 'cells', 'mode': mode, 'role': role, 'no_cov': False})
    return specs


class RawNonSeekable(io.RawIOBase):
    def __init__(self, data):
        self._b = io.BytesIO(data)

    def readable(self):
        return True

    def seekable(self):
        return False

    def readinto(self, b):
        return self._b.readinto(b)


class BufferedNonSeekable(io.BufferedIOBase):
    def __init__(self, data):
        self._b = io.BytesIO(data)

    def readable(self):
        return True

    def seekable(self):
        return False

    def read(self, n=-1):
        return self._b.read(n)

    def read1(self, n=-1):
        return self._b.read(n)

    def readinto(self, b):
        return self._b.readinto(b)


def payloads(fx_dir, tier):
    """name -> (dtd text placed before the root element, body snippet that uses it, declares_entity)"""
    secret = os.path.join(fx_dir, 'secret.txt')
    extdtd = os.path.join(fx_dir, 'ext.dtd')
    big = '<!-- ' + 'x' * 70000 + ' -->'
    out = {
        'no_doctype': ('', '', False),
        'doctype_plain': ('<!DOCTYPE ROOT>', '', False),
        'doctype_elements_only': ('<!DOCTYPE ROOT [<!ELEMENT ROOT ANY>]>', '', False),
        'internal_used': (f'<!DOCTYPE ROOT [<!ENTITY x "{MARK}">]>', '&x;', True),
        'internal_unused': (f'<!DOCTYPE ROOT [<!ENTITY x "{MARK}">]>', '', True),
        'external_system': (f'<!DOCTYPE ROOT [<!ENTITY x SYSTEM "file://{secret}">]>', '&x;', True),
        'external_public': (f'<!DOCTYPE ROOT [<!ENTITY x PUBLIC "-//VK//X" "file://{secret}">]>', '&x;', True),
        'parameter_internal': (f'<!DOCTYPE ROOT [<!ENTITY % p "<!ENTITY x \'{MARK}\'>"> %p;]>', '&x;', True),
        'parameter_external': (f'<!DOCTYPE ROOT [<!ENTITY % p SYSTEM "file://{extdtd}"> %p;]>', '', True),
        'unparsed_notation': ('<!DOCTYPE ROOT [<!NOTATION n SYSTEM "viewer"><!ENTITY u SYSTEM "file://%s" NDATA n>]>' % secret, '', True),
        'external_subset_system': (f'<!DOCTYPE ROOT SYSTEM "file://{extdtd}">', '', True),
        'external_subset_public': (f'<!DOCTYPE ROOT PUBLIC "-//VK//DTD" "file://{extdtd}">', '', True),
        'nested': (f'<!DOCTYPE ROOT [<!ENTITY a "{MARK}"><!ENTITY b "&a;&a;"><!ENTITY c "&b;&b;">]>', '&c;', True),
        'laughs_small': ('<!DOCTYPE ROOT [<!ENTITY l0 "%s">%s]>' % (
            MARK, ''.join(f'<!ENTITY l{i} "&l{i-1};&l{i-1};&l{i-1};">' for i in range(1, 5))), '&l4;', True),
        # standalone documents and references to undeclared parameter entities: what the scanning parser and the
        # real parser do with them must not differ in a way that lets a later declaration through
        'standalone_internal_used': (f'<!DOCTYPE ROOT [<!ENTITY x "{MARK}">]>', '&x;', True, True),
        'standalone_undeclared_pe': (f'<!DOCTYPE ROOT [ %undeclared; <!ENTITY x "{MARK}">]>', '&x;', True, True),
        # not standalone: after the reference to an undeclared parameter entity a non-validating processor may
        # ignore the declarations that follow (XML 1.0, 5.1): refused as forbidden or as not well-formed (undefined
        # entity), never expanded
        'undeclared_pe': (f'<!DOCTYPE ROOT [ %undeclared; <!ENTITY x "{MARK}">]>', '&x;', 'skippable'),
        'standalone_external_subset_only': (f'<!DOCTYPE ROOT SYSTEM "file://{extdtd}">', '', True, True),
        'standalone_external_subset': (f'<!DOCTYPE ROOT SYSTEM "file://{extdtd}" [<!ENTITY x "{MARK}">]>', '&x;', True, True),
        'after_70k_prolog': (big + f'<!DOCTYPE ROOT [<!ENTITY x "{MARK}">]>', '&x;', True),
        # clean documents whose root element starts near / after the end of the re-reader's 64 KiB buffer (the scanning
        # parser reads ahead of it): parsed to the same tree as without defusing, or refused as not rewindable
        'clean_root_at_64k': ('<!-- ' + 'x' * 65420 + ' -->', 'y' * 40000, False),
        'clean_after_70k_prolog': (big, 'z' * 40000, False),
    }
    if tier == 'thorough':
        out['after_1m_prolog'] = ('<!-- ' + 'y' * 1100000 + ' -->' + f'<!DOCTYPE ROOT [<!ENTITY x "{MARK}">]>', '&x;', True)
    return out


ENCODINGS = ('utf-8', 'utf-8-sig', 'utf-16', 'latin-1')


def document(role, dtd, use, encoding, standalone=False):
    """(text, bytes) of the payload document for a role; ROOT is replaced by the actual root name."""
    if role == 'instance':
        root = 'r'
        body = f'<r xmlns="urn:vk:d"><v>{use or "ok"}</v></r>'
    else:
        root = 'xs:schema'
        tns = 'urn:vk:d' if role != 'imported_schema' else 'urn:vk:imp'
        body = (f'<xs:schema xmlns:xs="{XS}" targetNamespace="{tns}"><xs:annotation><xs:documentation>{use or "ok"}'
                f'</xs:documentation></xs:annotation><xs:element name="e_{role}" type="xs:string"/></xs:schema>')
    dtd = dtd.replace('ROOT', root)
    decl_enc = {'utf-8': 'UTF-8', 'utf-8-sig': 'UTF-8', 'utf-16': 'UTF-16', 'latin-1': 'ISO-8859-1'}[encoding]
    sa = ' standalone="yes"' if standalone else ''
    text = f'<?xml version="1.0" encoding="{decl_enc}"{sa}?>\n{dtd}\n{body}'
    return text, text.encode(encoding)


INSTANCE_XSD = f'''<xs:schema xmlns:xs="{XS}" targetNamespace="urn:vk:d" elementFormDefault="qualified">
<xs:element name="r"><xs:complexType><xs:sequence><xs:element name="v" type="xs:string"/></xs:sequence></xs:complexType></xs:element>
</xs:schema>'''


class StubOpener(urllib.request.OpenerDirector):
    def __init__(self):
        super().__init__()
        self.bodies = {}
        self.sequences = {}
        self.asked = []
        o = urllib.request.OpenerDirector()
        o.add_handler(urllib.request.FileHandler())
        o.add_handler(urllib.request.UnknownHandler())
        self._file = o

    def open(self, fullurl, data=None, timeout=None):
        url = fullurl if isinstance(fullurl, str) else fullurl.full_url
        self.asked.append(url)
        if url.lower().startswith('file:'):
            return self._file.open(url)
        if url in self.sequences:
            # a server that answers every request differently; the responses cannot be rewound
            seq = self.sequences[url]
            body = seq.pop(0) if len(seq) > 1 else seq[0]
            if 'twofaced_http/' in url:
                # like http.client.HTTPResponse: a buffered, non-seekable stream that knows its URL
                resp = BufferedNonSeekable(body)
                resp.url = url
                return resp
            return urllib.response.addinfourl(RawNonSeekable(body), {}, url)
        if url in self.bodies:
            return urllib.response.addinfourl(io.BytesIO(self.bodies[url]), {}, url)
        raise urllib.error.URLError('stub: not found ' + url)


def applies(mode, kind, role, base='none'):
    """Documented rule: always; remote = base URL is remote; nonlocal = base URL is not a local file URL.
    `base` is the base_url argument given for sources without a URL of their own (none / remote / local)."""
    if mode == 'always':
        return True
    if mode == 'never':
        return False
    if kind.startswith('remote_url') or kind == 'remote_response':
        remote, local = True, False
    elif kind in ('path', 'file_url') or role in ('included_schema', 'imported_schema'):
        remote, local = False, True
    else:
        remote, local = base == 'remote', base == 'local'
    if mode == 'remote':
        return remote
    return not local


def run_cell(xmlschema, probes_counter, fx_dir, mode, role, kind, pname, payload, encoding, lazy=False, base='none'):
    from xmlschema.exceptions import XMLResourceForbidden
    dtd, use, declares = payload[:3]
    text, data = document(role, dtd, use, encoding, standalone=len(payload) > 3 and payload[3])
    opener = StubOpener()
    path = os.path.join(fx_dir, 'payload.xml' if role == 'instance' else 'payload.xsd')
    with open(path, 'wb') as f:
        f.write(data)
    opener.bodies[REMOTE + os.path.basename(path)] = data
    for u in REMOTE_SHAPES.values():
        opener.bodies[u] = data
    handles = []

    def make_source(k):
        if k == 'xmldocument_parse':
            return text if encoding == 'utf-8' and role == 'instance' else None
        if k == 'str':
            return text if encoding in ('utf-8',) else None
        if k == 'bytes':
            return data
        if k == 'StringIO':
            return io.StringIO(text) if encoding == 'utf-8' else None
        if k == 'BytesIO':
            return io.BytesIO(data)
        if k == 'text_file':
            if encoding != 'utf-8':
                return None
            h = open(path, encoding='utf-8')
            handles.append(h)
            return h
        if k == 'binary_file':
            h = open(path, 'rb')
            handles.append(h)
            return h
        if k == 'raw_nonseekable':
            return RawNonSeekable(data)
        if k == 'buffered_nonseekable':
            return BufferedNonSeekable(data)
        if k == 'path':
            return path
        if k == 'file_url':
            return 'file://' + urllib.request.pathname2url(path)
        if k == 'remote_url':
            return REMOTE + os.path.basename(path)
        if k in ('remote_url_two_faced', 'remote_url_two_faced_wrapped'):
            # the first response carries the payload, every later one is the clean document of the same role; the
            # response is a buffered stream (as for http URLs) or a wrapper that is not an io stream (addinfourl)
            if role not in ('instance', 'main_schema') or not declares:
                return None
            clean = document(role, '', '', encoding)[1]
            u = REMOTE + ('twofaced_http/' if k == 'remote_url_two_faced' else 'twofaced/') + os.path.basename(path)
            opener.sequences[u] = [data, clean]
            return u
        if k == 'remote_response':
            # what urlopen() returns for a remote URL: a stream that knows its remote URL
            return urllib.response.addinfourl(io.BytesIO(data), {}, REMOTE + os.path.basename(path)) \
                if role in ('instance', 'main_schema') else None
        if k in REMOTE_SHAPES:
            return REMOTE_SHAPES[k] if role in ('instance', 'main_schema') else None
        raise ValueError(k)

    result = {'raised': None, 'tree': None, 'skipped': False}
    if role in ('instance', 'main_schema'):
        src = make_source(kind)
        if src is None:
            result['skipped'] = True
            return result, []
    probes_counter.reset()
    with audit.window() as events, warnings.catch_warnings():
        warnings.simplefilter('ignore')
        try:
            bkw = {}
            if base == 'remote':
                bkw['base_url'] = REMOTE
            elif base == 'local':
                bkw['base_url'] = fx_dir
            if role == 'instance' and kind == 'xmldocument_parse':
                # a document object built from a clean document with the defuse mode, then told to parse the payload:
                # the options of the object go with it
                doc = xmlschema.XmlDocument(document('instance', '', '', 'utf-8')[0], schema=INSTANCE_XSD, validation='skip',
                                            defuse=mode, opener=opener, **bkw)
                probes_counter.reset()       # the clean document and the schema were parsed legitimately
                doc.parse(src)
                result['tree'] = canon(doc.root)
            elif role == 'instance':
                r = xmlschema.XMLResource(src, defuse=mode, opener=opener, lazy=lazy, **bkw)
                if lazy:
                    result['tree'] = b''.join(canon(e) for e in r.iter_depth())
                else:
                    result['tree'] = canon(r.root)
            elif role == 'main_schema':
                s = xmlschema.XMLSchema10(src, defuse=mode, opener=opener, **bkw)
                result['tree'] = canon(s.source.root)
            else:
                # payload is the included / imported document; the main schema is clean
                loc = {'path': os.path.basename(path), 'file_url': 'file://' + urllib.request.pathname2url(path),
                       'remote_url': REMOTE + os.path.basename(path)}.get(kind)
                if loc is None:
                    result['skipped'] = True
                    return result, []
                if role == 'included_schema':
                    main = (f'<xs:schema xmlns:xs="{XS}" targetNamespace="urn:vk:d"><xs:include schemaLocation="{loc}"/>'
                            f'<xs:element name="root" type="xs:string"/></xs:schema>')
                else:
                    main = (f'<xs:schema xmlns:xs="{XS}" targetNamespace="urn:vk:d"><xs:import namespace="urn:vk:imp" '
                            f'schemaLocation="{loc}"/><xs:element name="root" type="xs:string"/></xs:schema>')
                if kind == 'remote_url':
                    opener.bodies[REMOTE + 'main.xsd'] = main.encode()
                    s = xmlschema.XMLSchema10(REMOTE + 'main.xsd', defuse=mode, opener=opener)
                else:
                    mp = os.path.join(fx_dir, 'main.xsd')
                    with open(mp, 'w') as f:
                        f.write(main)
                    s = xmlschema.XMLSchema10(mp, defuse=mode, opener=opener)
                names = sorted(n for n in s.maps.elements if 'e_' in n)
                result['tree'] = repr(names).encode()
                result['loaded_payload'] = bool(names)
        except XMLResourceForbidden as e:
            result['raised'] = 'forbidden'
            result['msg'] = str(e)[:120]
        except xmlschema.XMLSchemaException as e:
            result['raised'] = 'library:' + type(e).__name__
            result['msg'] = str(e)[:160]
        except Exception as e:
            result['raised'] = 'foreign:' + type(e).__name__
            result['msg'] = str(e)[:160]
        finally:
            for h in handles:
                h.close()
    result['parse_starts'] = dict(probes_counter.counts)
    return result, list(events) + [('stub', u, None) for u in opener.asked]


def canon(elem):
    from xml.etree.ElementTree import tostring
    try:
        return tostring(elem)
    except Exception:
        from lxml import etree
        return etree.tostring(elem)


def run_shard(spec, res):
    xmlschema = env.activate_repo()
    from vk.mon import probes
    from xmlschema.resources.xml_loader import XMLResourceLoader
    counter = probes.CallCounter()
    counter.watch('XMLResourceLoader._parse', XMLResourceLoader._parse)
    counter.watch('XMLResourceLoader._lazy_iterparse', XMLResourceLoader._lazy_iterparse)
    counter.start()
    fx_dir = os.path.realpath(tempfile.mkdtemp(prefix='vk13-'))
    with open(os.path.join(fx_dir, 'secret.txt'), 'w') as f:
        f.write(MARK + ' from secret file')
    with open(os.path.join(fx_dir, 'ext.dtd'), 'w') as f:
        f.write(f'<!ENTITY x "{MARK}">')
    mode, role = spec['mode'], spec['role']
    tier = spec['tier']
    pls = payloads(fx_dir, tier)
    lazies = (False, True) if (tier == 'thorough' and role == 'instance') else (False,)
    for kind in KINDS:
        for pname, payload in pls.items():
            encs = ENCODINGS if pname in ('internal_used', 'no_doctype', 'external_subset_system') else ('utf-8',)
            for enc in encs:
                for lazy in lazies:
                    if lazy and kind in ('raw_nonseekable', 'buffered_nonseekable'):
                        continue
                    bases = ('none',)
                    if role in ('instance', 'main_schema') and not kind.startswith(('path', 'file_url', 'remote_url', 'remote_response')) and \
                            enc == 'utf-8' and pname in ('internal_used', 'no_doctype', 'external_system', 'parameter_internal'):
                        bases = ('none', 'remote', 'local')
                    for base in bases:
                        cell = {'mode': mode, 'role': role, 'kind': kind, 'payload': pname, 'encoding': enc, 'lazy': lazy, 'base': base}
                        result, events = run_cell(xmlschema, counter, fx_dir, mode, role, kind, pname, payload, enc, lazy, base)
                        if result['skipped']:
                            continue
                        judge(res, xmlschema, counter, fx_dir, cell, payload, result, events)
    counter.stop()


def judge(res, xmlschema, counter, fx_dir, cell, payload, result, events):
    mode, role, kind = cell['mode'], cell['role'], cell['kind']
    dtd, use, declares = payload[:3]
    app = applies(mode, kind, role, cell.get('base', 'none'))
    res.case(env.h8(tuple(sorted(cell.items()))) if (app and declares) else None)
    res.count('cells')
    res.count('applies' if app else 'not_applies')
    raised = result['raised']
    if raised and raised.startswith('foreign'):
        res.violation(f'foreign-exception:{raised[8:]}', cell, f'{cell}: {result.get("msg")}')
        return
    fetched = [e for e in events if (e[0] in ('open', 'stub', 'urllib.Request')) and
               ('secret.txt' in e[1] or 'ext.dtd' in e[1])]
    expanded = result['tree'] is not None and MARK.encode() in result['tree']
    if app and declares:
        if role == 'imported_schema' and raised is None and not result.get('loaded_payload') and not expanded:
            # a forbidden import is, as the recommendation allows, a failed location access: the schema is built
            # without that namespace and a warning is issued (loaders.import_namespace). Refused = not loaded.
            starts = sum(result['parse_starts'].values())
            if starts > 1:
                res.violation(f'parse-started-before-forbidden-error:{role}:{kind}', cell,
                              f'{cell}: real parse entered {result["parse_starts"]} although the import was refused')
            elif fetched:
                res.violation(f'external-identifier-fetched:{role}:{kind}:{cell["payload"]}', cell, f'{cell}: {fetched[:2]}')
            else:
                res.count('refused_import_skipped_with_warning')
            return
        if declares == 'skippable' and raised and raised != 'forbidden' and 'undefined entity' in (result.get('msg') or '') \
                and not expanded and not fetched:
            res.count('skippable_declaration:refused_as_undefined_entity')
            return
        if declares == 'skippable' and raised is None and cell.get('lazy') and not expanded and not fetched:
            # a lazy resource parses the root's start tag only: the reference to the (skipped) entity is not reached
            res.count('skippable_declaration:reference_not_reached_by_the_lazy_parse')
            return
        if raised != 'forbidden' and kind.startswith('remote_url_two_faced'):
            res.violation('double-opening:the-response-parsed-is-not-the-response-checked' +
                          (':response-object-that-is-not-an-io-stream' if kind.endswith('wrapped') else ''), cell,
                          f'{cell}: outcome {raised or "parsed"}; expanded={expanded}')
            return
        if raised != 'forbidden' and kind == 'remote_response' and mode == 'remote':
            res.violation('remote-response-object-not-treated-as-remote-data', cell,
                          f'{cell}: outcome {raised or "parsed"}; expanded={expanded}')
            return
        if raised != 'forbidden':
            res.violation(f'payload-not-refused:{role}:{kind}:{cell["payload"]}', cell,
                          f'{cell}: outcome {raised or "parsed"} {result.get("msg", "")}; expanded={expanded}')
            return
        starts = sum(result['parse_starts'].values())
        # for sub-resources the main schema's own parse is legitimate: count only parses after it
        legit = 1 if role in ('included_schema', 'imported_schema') else 0
        if starts > legit:
            res.violation(f'parse-started-before-forbidden-error:{role}:{kind}', cell,
                          f'{cell}: real parse entered {result["parse_starts"]} before the raise')
            return
        if fetched:
            res.violation(f'external-identifier-fetched:{role}:{kind}:{cell["payload"]}', cell, f'{cell}: {fetched[:2]}')
            return
        res.count('refused_before_parse')
    else:
        if expanded and app:
            res.violation('expansion-marker-in-tree', cell, f'{cell}')
            return
        if app and not declares:
            # clean document: must parse, and to the same tree as without defusing
            if raised == 'library:XMLResourceOSError' and 'nonseekable' in kind and \
                    cell['payload'] in ('clean_root_at_64k', 'clean_after_70k_prolog'):
                # a stream that cannot be rewound, scanned beyond the re-reader's buffer: refusing is the safe answer
                res.count('clean_long_prolog_on_nonseekable_stream_refused_as_not_rewindable')
                return
            if raised:
                res.violation(f'clean-document-refused:{role}:{kind}:{cell["payload"]}', cell, f'{cell}: {raised} {result.get("msg")}')
                return
            ref, _ = run_cell(xmlschema, counter, fx_dir, 'never', role, kind, cell['payload'], payload, cell['encoding'], cell['lazy'],
                              cell.get('base', 'none'))
            if ref['tree'] != result['tree']:
                res.violation('clean-document-tree-differs-with-defusing', cell, f'{cell}')
                return
            res.count('clean_same_tree')
        else:
            res.count('not_applicable:' + (raised.split(':')[0] if raised else 'parsed'))
    if len(res.samples) < 2:
        res.sample(dict(cell, outcome=raised or 'parsed', parse_starts=result.get('parse_starts')))


def finalize(res, tier):
    c = res.counters
    reasons = []
    if c.get('refused_before_parse', 0) < 100:
        reasons.append('fewer than 100 refused payload cells')
    if not c.get('clean_same_tree'):
        reasons.append('no clean document compared with and without defusing')
    return {'inconclusive': reasons}


def replay(case):
    xmlschema = env.activate_repo()
    from vk.result import Result
    from vk.mon import probes
    from xmlschema.resources.xml_loader import XMLResourceLoader
    counter = probes.CallCounter()
    counter.watch('XMLResourceLoader._parse', XMLResourceLoader._parse)
    counter.watch('XMLResourceLoader._lazy_iterparse', XMLResourceLoader._lazy_iterparse)
    counter.start()
    fx_dir = os.path.realpath(tempfile.mkdtemp(prefix='vk13-'))
    open(os.path.join(fx_dir, 'secret.txt'), 'w').write(MARK)
    open(os.path.join(fx_dir, 'ext.dtd'), 'w').write(f'<!ENTITY x "{MARK}">')
    payload = payloads(fx_dir, 'thorough')[case['payload']]
    result, events = run_cell(xmlschema, counter, fx_dir, case['mode'], case['role'], case['kind'], case['payload'], payload,
                              case['encoding'], case.get('lazy', False), case.get('base', 'none'))
    print(result)
    res = Result()
    judge(res, xmlschema, counter, fx_dir, case, payload, result, events)
    for v in res.violations:
        print(v['mechanism'], v['detail'][:300])
    return bool(res.violations)
