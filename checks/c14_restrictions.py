"""C14 - accepted type restrictions only ever narrow what instances are valid."""
import itertools

from vk import env, modelkit as K, pinned
from vk.gen import models as M
from vk.ref import contentmodel as R

PROPERTY = 'C14'
LEVEL = 'exploration'
RULE = ('content: catalogue + seeded base content models (nested sequence / choice, xs:all, wildcards, substitution heads; '
        'deterministic by the reference) x systematic candidate restrictions (every particle\'s occurrence range moved to every '
        'other vocabulary value, dropped / added particles, a chosen branch of a choice, changed compositor, wildcard <-> '
        'element, wildcard namespace narrowed / widened, pointless groups inserted / removed); for every candidate the schema '
        'is built with the candidate as a restriction of the base; if it is accepted every word up to the length bound that '
        'the library accepts for the derived element must be accepted for the base element (the reference proposes the '
        'witnesses, the library confirms them on both sides); facets: (base, derived) pairs of every facet x {tighter, equal, '
        'looser} over boundary values; redefinition: the same (base, candidate) pairs as a redefined named group, alone and below a '
        'second redefinition by extension, compared with the original group and with the verdict of the type route; attributes: use / fixed / type / wildcard pairs x attribute-set probes; XSD 1.0 and 1.1; a '
        'case = (base, candidate); non-trivial = accepted candidates that change the base')
RULE += (' ' + "Bases that are deterministic only under the XSD 1.1 reading (an element beside a wildcard that admits it) are judged with XMLSchema11; besides single edits there is the two-step edit 'one branch of a choice with another occurrence range'. A base that costs more than 8 s (25 s thorough) is cut short (coverage, not verdict).")
ASSUMPTIONS = [
    'the claim is one-directional: accepted => included; refused-but-included candidates are tallied as over_strict, not violations',
    'a counter-example counts only when the library itself accepts the witness for the derived type and rejects it for the base type',
    'inclusion is decided on words up to a bound (5, or 6 for small alphabets): longer counter-examples are missed (word_bound in the evidence)',
    'only bases the reference finds deterministic are used',
]
ANCHORS = {
    'xmlschema/validators/groups.py': [(679, 850), (1287, 1542)],
    'xmlschema/validators/elements.py': [(1128, 1203)],
    'xmlschema/validators/particles.py': [(128, 138)],
    'xmlschema/validators/attributes.py': [(508, 605)],
    'xmlschema/validators/wildcards.py': [(214, 267)],
    'xmlschema/validators/simple_types.py': [(148, 289)],
    'xmlschema/validators/facets.py': [(70, 121), (188, 283), (300, 558)],
    'xmlschema/validators/xsd_globals.py': [(646, 682)],
}
SHARD_TIMEOUT = {'quick': 900, 'thorough': 5400}
LEVEL_TEXT = ('Metamorphic runtime monitoring of the real restriction checker: systematic candidate restrictions of generated '
              'base types are offered to the schema builder; whenever one is accepted, instances are validated against the '
              'derived and the base element and any instance valid for the derived but not for the base type is a counter-'
              'example to soundness (the reference model only proposes the witnesses).')
LEVEL_NOTE = ('Trusted: the candidate generator and renderer; verdicts come from the library on both sides, so content-model '
              'defects (C01) cannot create false alarms. Bounded word length.')
TECHNIQUE = 'runtime monitoring: metamorphic oracle (valid for accepted restriction => valid for base) with reference-proposed witnesses'

OCC = M.OCCURS


def plan(tier, seed):
    specs = [{'kind': 'catalogue'}]
    n = 130 if tier == 'quick' else 3000
    shards = 13 if tier == 'quick' else 48
    for s in range(shards):
        specs.append({'kind': 'content', 'n': n // shards, 'cshard': s, 'maxlen': 5 if tier == 'quick' else 6})
    specs.append({'kind': 'facets'})
    specs.append({'kind': 'attributes', 'n': 60 if tier == 'quick' else 800})
    return specs


# ---------------------------------------------------------------------------------------------
def occ_label(old, new):
    omn, omx = old
    nmn, nmx = new
    hi_ok = (omx is None) or (nmx is not None and nmx <= omx)
    if nmn >= omn and hi_ok:
        return 'occurs-tighter'
    if nmn < omn and not hi_ok:
        return 'occurs-wider-both'
    return 'occurs-min-lowered' if nmn < omn else 'occurs-max-raised'


def candidates(node, path=()):
    """Yield (label, new_root_builder) edits as (label, edited copy of the subtree at `node`)."""
    k = node[0]
    mn, mx = M.occ(node)
    kind = {'s': 'sequence', 'c': 'choice', 'a': 'all'}.get(k, {'e': 'element', 'w': 'wildcard', 'h': 'head', 't': 'element'}.get(k))
    for o in OCC:
        if o != (mn, mx):
            yield f'{occ_label((mn, mx), o)}:{kind}', node[:-2] + o
    if k == 'w':
        for sym in ('a', 'x', 'n'):
            lbl = 'wildcard-to-admitted-element' if M.wildcard_admits(node[1], sym if sym != 'a' else 'a') else 'wildcard-to-foreign-element'
            if sym == 'a':
                yield lbl, ('e', 'a', mn, mx)
        for con in M.WILDCARD_CONS:
            if con != node[1]:
                narrower = all(M.wildcard_admits(node[1], s) for s in M.SYMBOLS if M.wildcard_admits(con, s))
                yield ('wildcard-narrowed' if narrower else 'wildcard-widened-or-moved'), ('w', con, mn, mx)
    if k == 'e':
        yield 'element-to-wildcard', ('w', 'tns', mn, mx)
        other = [n for n in M.ELEMENT_NAMES if n != node[1]][0]
        yield 'element-renamed', ('e', other, mn, mx)
    if k == 'h':
        yield 'head-to-member-element', ('e', 'a', mn, mx)
    if M.is_group(node):
        kids = node[1]
        for i in range(len(kids)):
            emptiable = R.nullable(R.Model(('s', (kids[i],), 1, 1)).expr)
            if len(kids) > 1:
                yield ('drop-emptiable-particle' if emptiable else 'drop-required-particle') + ':' + kind, (k, kids[:i] + kids[i + 1:], mn, mx)
            for lbl, sub in candidates(kids[i], path + (i,)):
                yield lbl, (k, kids[:i] + (sub,) + kids[i + 1:], mn, mx)
            if k == 'c':
                yield 'choose-branch', ('s', (kids[i],), mn, mx)
                # two steps: the branch alone, with another occurrence range (an element particle against a choice)
                for o in OCC:
                    if o != M.occ(kids[i]):
                        yield 'choose-branch+' + occ_label(M.occ(kids[i]), o), ('s', (kids[i][:-2] + o,), mn, mx)
        if k == 's' and len(kids) > 1:
            # one particle of a sequence kept as the single branch of a choice (compositor changed, the others dropped)
            for i in range(len(kids)):
                yield 'keep-one-particle-as-choice', ('c', (kids[i],), mn, mx)
        yield f'add-particle:{kind}', (k, kids + (('e', 'c', 1, 1),), mn, mx)
        yield f'add-optional-particle:{kind}', (k, kids + (('e', 'c', 0, 1),), mn, mx)
        if k in 'sc' and len(kids) > 1:
            yield 'change-compositor', ('c' if k == 's' else 's', kids, mn, mx)
        yield 'wrap-in-pointless-sequence', ('s', (node,), 1, 1)


def family(label):
    """Coarse family of an edit label (the mechanism key of unsound acceptances)."""
    if label.startswith('choose-branch+'):
        # taking one branch of a choice is sound by itself: an unsound result is the doing of the second step
        second = family(label[len('choose-branch+'):])
        return second if second == 'occurrence-range-widened' else 'choose-branch+' + second
    head = label.split(':')[0]
    if head in ('occurs-min-lowered', 'occurs-max-raised', 'occurs-wider-both'):
        return 'occurrence-range-widened'
    if head in ('add-particle', 'add-optional-particle'):
        return 'particle-added'
    if head in ('element-renamed', 'element-to-wildcard', 'wildcard-widened-or-moved', 'wildcard-to-foreign-element',
                'head-to-member-element', 'wildcard-to-admitted-element', 'wildcard-narrowed'):
        return 'leaf-replaced:' + head
    if head == 'occurs-tighter':
        return 'occurrence-range-tightened'
    return head


def restriction_schema(base, derived, cfg):
    out = M.schema_head()
    out += M.subst_decls(cfg)
    out += M.render_type('B', base, cfg)
    # derived: restriction of B
    dnode = derived if M.is_group(derived) else ('s', (derived,), 1, 1)
    out += ('  <xs:complexType name="D"><xs:complexContent><xs:restriction base="t:B">\n' +
            M.render_particle(dnode, cfg, '    ') + '  </xs:restriction></xs:complexContent></xs:complexType>\n')
    out += '  <xs:element name="b" type="t:B"/>\n  <xs:element name="d" type="t:D"/>\n</xs:schema>\n'
    return out


def build(cls, text):
    xmlschema = env.activate_repo()
    try:
        return cls(text), None
    except xmlschema.XMLSchemaException as e:
        return None, e


def words_for(base, derived, cfg, maxlen):
    syms = set(M.alphabet(base, cfg)) | set(M.alphabet(derived, cfg))
    syms = sorted(syms)[:5]
    while len(syms) ** maxlen > 4000 and maxlen > 3:
        maxlen -= 1
    return list(M.all_words(syms, maxlen))


def judge_content(res, xmlschema, base, cfg, origin, maxlen, rng, limit):
    base = M.to_tuple(base)
    bmodel = R.Model(base, cfg)
    det10 = R.deterministic(bmodel, '1.0')[0]
    if not det10 and not R.deterministic(bmodel, '1.1')[0]:
        res.count('base:skipped_nondeterministic')
        return
    if not det10:
        res.count('base:deterministic_in_1.1_only')     # an element competing with a wildcard
    every = list(dict((c[1], c) for c in candidates(base)).values())
    rng.shuffle(every)
    cands = [c for c in every if not c[0].startswith('choose-branch+')][:limit]
    cands += [c for c in every if c[0].startswith('choose-branch+')][:max(3, limit // 3)]
    cands += [c for c in every if c[0] == 'keep-one-particle-as-choice' and c not in cands][:2]
    import time
    started = time.monotonic()
    for label, derived in cands:
        if time.monotonic() - started > (8 if maxlen <= 5 else 25):
            # a few counted, nested, nearly ambiguous models cost minutes in the validator: coverage, not verdicts, is cut
            res.count('base:time_budget_exhausted')
            break
        if not M.is_group(derived):
            derived = ('s', (derived,), 1, 1)
        for version, cls in (('1.0', xmlschema.XMLSchema10), ('1.1', xmlschema.XMLSchema11)):
            if version == '1.0' and not (det10 and K.expressible_10(base) and K.expressible_10(derived)):
                continue
            text = restriction_schema(base, derived, cfg)
            schema, err = build(cls, text)
            res.evaluations += 1
            dmodel = R.Model(derived, cfg)
            words = words_for(base, derived, cfg, maxlen)
            # reference-proposed witnesses: in L(D) but not in L(B)
            witnesses = []
            for w in words:
                if R.in_language_deriv(dmodel, w) and not R.in_language_deriv(bmodel, w):
                    witnesses.append(w)
                    if len(witnesses) >= 6:
                        break
            included = not witnesses
            if schema is None:
                res.count(f'{version}:refused:' + ('not_included' if not included else 'over_strict'))
                if included:
                    res.count('over_strict:' + label.split(':')[0])
                continue
            res.count(f'{version}:accepted:' + ('included' if included else 'reference_says_not_included'))
            res.nontrivial.add(env.h8((version, M.text(base), M.text(derived))))
            if included:
                # still probe through the library on a sample of words: valid(d) => valid(b)
                probe = words if len(words) <= 400 else rng.sample(words, 400)
            else:
                probe = witnesses
            found = None
            for w in probe:
                if schema.is_valid(M.instance_element(w, 'd')) and not schema.is_valid(M.instance_element(w, 'b')):
                    # the reference must confirm both verdicts, otherwise a content-model defect (C01) is leaking in
                    if R.in_language_deriv(dmodel, w) and not R.in_language_deriv(bmodel, w) and \
                            R.in_language_ends(dmodel, w) and not R.in_language_ends(bmodel, w):
                        found = w
                        break
                    res.count('library_witness_not_confirmed_by_reference(C01 defect)')
            if found is not None:
                case = {'base': base, 'derived': derived, 'cfg': cfg, 'version': version, 'word': found, 'label': label}
                # listed families are weaknesses of the pinned restriction checker: if the pinned methods (run inside
                # the live library) refuse this pair, the tree accepts something the pinned checker did not
                with pinned.pinned_restriction_checker():
                    pinned_accepts = build(cls, text)[0] is not None
                res.count(f'{version}:unsound_acceptance:' + ('same_as_pinned_checker' if pinned_accepts else 'differs_from_pinned_checker'))
                suffix = '' if pinned_accepts else ':not-the-verdict-of-the-pinned-checker'
                res.violation(f'content:{version}:{family(label)}{suffix}', case,
                              f'{version}: {M.text(derived)} accepted as restriction of {M.text(base)}{K.cfg_text(cfg)} but '
                              f'{"".join(found) or "<empty>"} is valid for the derived type only ({origin}; edit {label})')
            elif not included:
                res.count('witness_not_confirmed_by_library')
            else:
                res.count('agree')
            if len(res.samples) < 2 and schema is not None:
                res.sample({'base': M.text(base), 'candidate': M.text(derived), 'edit': label, 'version': version, 'accepted': True})


def judge_redefine(res, xmlschema, base, cfg, origin, maxlen, rng, limit, scratch):
    """Redefinition of a named model group by restriction, alone (main redefines base) and at the bottom of a chain
    whose top redefines the group once more by extension (self-reference): accepted => L(new G) subset of L(G)."""
    import os
    base = M.to_tuple(base)
    if cfg.get('open') or cfg.get('groupref') or not M.is_group(base) or M.occ(base) != (1, 1) or base[0] == 'a':
        return
    bmodel = R.Model(base, cfg)
    if not R.deterministic(bmodel, '1.0')[0]:
        return
    cands = [c for c in dict((c[1], c) for c in candidates(base)).values()
             if M.is_group(c[1]) and M.occ(c[1]) == (1, 1) and c[1][0] != 'a']
    rng.shuffle(cands)

    def doc(body):
        return M.schema_head() + body + '</xs:schema>\n'
    for label, derived in cands[:limit]:
        dmodel = R.Model(derived, cfg)
        words = words_for(base, derived, cfg, maxlen)
        witnesses = [w for w in words if R.in_language_deriv(dmodel, w) and not R.in_language_deriv(bmodel, w)][:6]
        included = not witnesses
        files = {
            'base.xsd': doc(M.subst_decls(cfg) + '  <xs:group name="G">\n' + M.render_particle(base, cfg, '    ') + '  </xs:group>\n'
                            '  <xs:element name="g"><xs:complexType><xs:group ref="t:G"/></xs:complexType></xs:element>\n'),
            'mid.xsd': doc('  <xs:redefine schemaLocation="base.xsd">\n  <xs:group name="G">\n' +
                           M.render_particle(derived, cfg, '    ') + '  </xs:group>\n  </xs:redefine>\n'),
            'top.xsd': doc('  <xs:redefine schemaLocation="mid.xsd">\n  <xs:group name="G"><xs:sequence><xs:group ref="t:G"/>'
                           '<xs:element name="zz" type="xs:string" minOccurs="0"/></xs:sequence></xs:group>\n  </xs:redefine>\n'),
        }
        for name, text in files.items():
            with open(os.path.join(scratch, name), 'w') as f:
                f.write(text)
        for version, cls in (('1.0', xmlschema.XMLSchema10), ('1.1', xmlschema.XMLSchema11)):
            if version == '1.0' and not (K.expressible_10(base) and K.expressible_10(derived)):
                continue
            base_schema, err = build(cls, os.path.join(scratch, 'base.xsd'))
            if base_schema is None:
                res.count('redefine:base_refused')
                continue
            # the same pair as a complex type restriction: the redefinition routes use the same checker, so an unsound
            # acceptance shared with that route is the finding listed for it; only a redefinition that accepts what the
            # type route (or, for the chain, the single redefinition) refuses is something else
            def verdict(built):
                if built[0] is not None:
                    return 'accepted'
                return 'refused-as-restriction' if 'restriction' in str(built[1]) else 'refused-otherwise'
            accepted_by = {'type': verdict(build(cls, restriction_schema(base, derived, cfg)))}
            for route, entry in (('redefine', 'mid.xsd'), ('redefine-chain', 'top.xsd')):
                schema, err = build(cls, os.path.join(scratch, entry))
                res.evaluations += 1
                accepted_by[route] = verdict((schema, err))
                if schema is None:
                    res.count(f'{route}:{version}:refused:' + ('not_included' if not included else 'over_strict'))
                    continue
                res.count(f'{route}:{version}:accepted:' + ('included' if included else 'reference_says_not_included'))
                res.nontrivial.add(env.h8((route, version, M.text(base), M.text(derived))))
                probe = witnesses if not included else (words if len(words) <= 200 else rng.sample(words, 200))
                found = None
                for w in probe:
                    if schema.is_valid(M.instance_element(w, 'g')) and not base_schema.is_valid(M.instance_element(w, 'g')):
                        if R.in_language_deriv(dmodel, w) and not R.in_language_deriv(bmodel, w) and \
                                R.in_language_ends(dmodel, w) and not R.in_language_ends(bmodel, w):
                            found = w
                            break
                        res.count('library_witness_not_confirmed_by_reference(C01 defect)')
                if found is not None:
                    case = {'base': base, 'derived': derived, 'cfg': cfg, 'version': version, 'word': found, 'label': label,
                            'route': route, 'files': files}
                    # listed under the type route's family when the same checker accepts the pair there (or, for the chain,
                    # as a single redefinition); new when every other route refuses it as an illegal restriction
                    others = [accepted_by['type']] + ([accepted_by['redefine']] if route == 'redefine-chain' else [])
                    mech = f'content:{version}:{family(label)}' if any(v != 'refused-as-restriction' for v in others) else \
                        f'{route}:{version}:accepted-although-refused-as-restriction-by-the-other-routes'
                    with pinned.pinned_restriction_checker():
                        if build(cls, os.path.join(scratch, entry))[0] is None:
                            mech += ':not-the-verdict-of-the-pinned-checker'
                    res.violation(mech, case,
                                  f'{version} {route}: group {M.text(derived)} accepted as redefinition (restriction) of '
                                  f'{M.text(base)}{K.cfg_text(cfg)} but {"".join(found) or "<empty>"} is valid for the new group only '
                                  f'({origin}; edit {label})')
                elif included:
                    res.count(f'{route}:agree')
                else:
                    res.count(f'{route}:witness_not_confirmed_by_library')


def catalogue():
    e = lambda n, mn=1, mx=1: ('e', n, mn, mx)
    s = lambda kids, mn=1, mx=1: ('s', tuple(kids), mn, mx)
    c = lambda kids, mn=1, mx=1: ('c', tuple(kids), mn, mx)
    a = lambda kids, mn=1, mx=1: ('a', tuple(kids), mn, mx)
    w = lambda con, mn=1, mx=1: ('w', con, mn, mx)
    return [
        (s([e('a'), e('b', 0, 1)]), {}), (s([e('a', 1, 2), e('b', 0, None)]), {}), (c([e('a'), e('b')], 1, None), {}),
        (c([e('a'), e('b')], 2, None), {}), (s([c([e('a'), e('b')], 0, 1), e('c')]), {}), (a([e('a'), e('b', 0, 1)]), {}),
        (s([e('a'), w('other', 0, 2)]), {}), (s([w('tns', 1, 2)]), {}), (s([('h', 1, 1), e('a', 0, 1)]), {'subst': 'plain'}),
        (s([s([e('a'), e('b')], 0, 2), e('c', 0, 1)]), {}), (c([s([e('a'), e('b')]), e('c')], 0, 2), {}),
        (s([w('any', 0, 1)]), {}), (s([w('other', 0, 1), e('a')]), {}),
        # XSD 1.1 only: an element and a wildcard that admits it, side by side in a choice
        (s([c([e('a'), w('any')]), e('b')]), {}), (s([c([e('a'), w('tns', 1, 2)], 1, 2), e('b')]), {}),
        (s([c([e('a', 1, 2), e('c'), w('tns')]), e('b', 0, 1)]), {}),
    ]


def run_content(spec, res):
    xmlschema = env.activate_repo()
    rng = env.rng_for(PROPERTY, spec['tier'], spec['seed'], 'content', spec.get('cshard', 0))
    import tempfile
    scratch = tempfile.mkdtemp(prefix='c14-')
    if spec['kind'] == 'catalogue':
        for base, cfg in catalogue():
            judge_content(res, xmlschema, base, cfg, 'catalogue', 5, rng, 400)
            judge_redefine(res, xmlschema, base, cfg, 'catalogue', 5, rng, 12, scratch)
        return
    for n in range(spec['n']):
        cfg = {}
        if rng.random() < 0.1:
            base = M.sample_all_model(rng, rng.choice(('1.0', '1.1')))
        else:
            base = M.sample_model(rng, max_depth=rng.choice((2, 2, 3)), leaf_weights={'e': 8, 'w': 2, 'h': 1}, max_children=3)
        if any(lf[0] == 'h' for lf in M.leaves(base)):
            cfg['subst'] = rng.choice(('plain', 'plain', 'member_abstract'))
        res.count('content:bases')
        judge_content(res, xmlschema, base, cfg, 'random', spec['maxlen'], rng, 26 if spec['tier'] == 'quick' else 40)
        judge_redefine(res, xmlschema, base, cfg, 'random', spec['maxlen'], rng, 6 if spec['tier'] == 'quick' else 12, scratch)


# ---------------------------------------------------------------------------------------------
FACET_BASES = [
    ('xs:string', 'length', ['3'], ['3'], ['2', '4'], ['abc', 'ab', 'abcd', '']),
    ('xs:string', 'minLength', ['2'], ['2', '3'], ['1', '0'], ['a', 'ab', 'abc', '']),
    ('xs:string', 'maxLength', ['3'], ['3', '2'], ['4', '10'], ['abcd', 'abc', 'ab', 'abcdefghijkl']),
    ('xs:int', 'minInclusive', ['5'], ['5', '6'], ['4', '-1'], ['4', '5', '6', '-1', '3']),
    ('xs:int', 'maxInclusive', ['5'], ['5', '4'], ['6', '100'], ['4', '5', '6', '100', '7']),
    ('xs:int', 'minExclusive', ['5'], ['5', '6'], ['4'], ['4', '5', '6', '7']),
    ('xs:int', 'maxExclusive', ['5'], ['5', '4'], ['6'], ['3', '4', '5', '6']),
    ('xs:decimal', 'totalDigits', ['3'], ['3', '2'], ['4'], ['123', '12', '1234', '1.23', '12.34']),
    ('xs:decimal', 'fractionDigits', ['2'], ['2', '1'], ['3'], ['1.23', '1.2', '1.234', '1']),
    ('xs:string', 'enumeration', ['a', 'b'], ['a'], ['c'], ['a', 'b', 'c']),
    ('xs:string', 'pattern', ['[a-c]+'], ['[a-b]+'], ['[a-z]+'], ['abc', 'ab', 'xyz', 'abz']),
    ('xs:token', 'whiteSpace', ['collapse'], ['collapse'], ['preserve', 'replace'], ['a  b', ' a', 'a']),
    ('xs:dateTime', 'explicitTimezone', ['required'], ['required'], ['optional', 'prohibited'], ['2020-01-01T00:00:00Z', '2020-01-01T00:00:00']),
    ('xs:date', 'minInclusive', ['2020-01-01'], ['2020-01-01', '2020-06-01'], ['2019-01-01'], ['2019-06-01', '2020-01-01', '2020-07-01']),
]


def facet_xml(name, values):
    return ''.join(f'<xs:{name} value="{v}"/>' for v in values)


def run_facets(spec, res):
    xmlschema = env.activate_repo()
    XS = M.XS
    for version, cls in (('1.0', xmlschema.XMLSchema10), ('1.1', xmlschema.XMLSchema11)):
        for btype, facet, bvals, tighter, looser, probes in FACET_BASES:
            if facet == 'explicitTimezone' and version == '1.0':
                continue
            for kind, dvals_list in (('tighter-or-equal', tighter), ('looser', looser)):
                for dv in dvals_list:
                    dvals = [dv]
                    text = (f'<xs:schema xmlns:xs="{XS}"><xs:simpleType name="B"><xs:restriction base="{btype}">{facet_xml(facet, bvals)}'
                            f'</xs:restriction></xs:simpleType><xs:simpleType name="D"><xs:restriction base="B">{facet_xml(facet, dvals)}'
                            f'</xs:restriction></xs:simpleType><xs:element name="b" type="B"/><xs:element name="d" type="D"/></xs:schema>')
                    schema, err = build(cls, text)
                    res.evaluations += 1
                    res.count(f'facets:{kind}:' + ('accepted' if schema else 'refused'))
                    if schema is None:
                        continue
                    res.nontrivial.add(env.h8((version, facet, str(bvals), dv)))
                    for p in probes:
                        vd = schema.is_valid(f'<d>{p}</d>')
                        vb = schema.is_valid(f'<b>{p}</b>')
                        res.count('facets:probes')
                        if vd and not vb:
                            res.violation(f'facets:{version}:{facet}:{kind}', {'schema': text, 'probe': p, 'version': version},
                                          f'{version}: {facet}={dv} accepted as restriction of {facet}={bvals} on {btype}; {p!r} valid for derived only')
    res.sample({'facet_pairs': len(FACET_BASES)})


# ---------------------------------------------------------------------------------------------
def run_attributes(spec, res):
    xmlschema = env.activate_repo()
    XS = M.XS
    rng = env.rng_for(PROPERTY, spec['tier'], spec['seed'], 'attributes')
    uses = ('optional', 'required', 'prohibited')
    types = ('xs:int', 'xs:string', 'xs:decimal', 'xs:boolean')
    wcs = (None, ('##any', 'lax'), ('##other', 'skip'), ('##local', 'skip'), ('##any', 'strict'), ('##targetNamespace', 'lax'))

    def attr(name, use, typ, fixed):
        s = f'<xs:attribute name="{name}" type="{typ}"'
        if use != 'optional':
            s += f' use="{use}"'
        if fixed is not None and use != 'prohibited':
            s += f' fixed="{fixed}"'
        return s + '/>'

    def wc_xml(w):
        return f'<xs:anyAttribute namespace="{w[0]}" processContents="{w[1]}"/>' if w else ''

    fixed_of = {'xs:int': '5', 'xs:string': 'v', 'xs:decimal': '1.0', 'xs:boolean': 'true'}
    probes_vals = {'xs:int': ['5', '6', 'x'], 'xs:string': ['v', 'w'], 'xs:decimal': ['1.0', '1', '2.5', 'x'], 'xs:boolean': ['true', '0', 'x']}
    for n in range(spec['n']):
        b = {nm: (rng.choice(uses[:2]), rng.choice(types), rng.random() < 0.25) for nm in rng.sample(['p', 'q', 'r'], rng.randint(1, 3))}
        bw = rng.choice(wcs)
        d = {}
        for nm, (use, typ, fx) in b.items():
            r = rng.random()
            if r < 0.15:
                continue    # not repeated: inherited
            d[nm] = (rng.choice(uses), typ if rng.random() < 0.75 else rng.choice(types), rng.random() < 0.3)
        if rng.random() < 0.3:
            d['z'] = (rng.choice(uses[:2]), rng.choice(types), False)
        dw = rng.choice(wcs) if rng.random() < 0.6 else bw
        for version, cls in (('1.0', xmlschema.XMLSchema10), ('1.1', xmlschema.XMLSchema11)):
            text = (f'<xs:schema xmlns:xs="{XS}" targetNamespace="{M.TNS}" xmlns:t="{M.TNS}">'
                    f'<xs:complexType name="B">' + ''.join(attr(nm, u, t, fixed_of[t] if fx else None) for nm, (u, t, fx) in b.items()) + wc_xml(bw) + '</xs:complexType>'
                    f'<xs:complexType name="D"><xs:complexContent><xs:restriction base="t:B">' +
                    ''.join(attr(nm, u, t, fixed_of[t] if fx else None) for nm, (u, t, fx) in d.items()) + wc_xml(dw) +
                    '</xs:restriction></xs:complexContent></xs:complexType>'
                    '<xs:element name="b" type="t:B"/><xs:element name="d" type="t:D"/></xs:schema>')
            schema, err = build(cls, text)
            res.evaluations += 1
            res.count('attributes:' + ('accepted' if schema else 'refused'))
            if schema is None:
                continue
            res.nontrivial.add(env.h8((version, text)))
            names = sorted(set(b) | set(d) | {'zz'})
            found = None
            for r in range(len(names) + 1):
                for subset in itertools.combinations(names, r):
                    attrs = ''
                    for nm in subset:
                        typ = (d.get(nm) or b.get(nm) or ('', 'xs:string', False))[1]
                        attrs += f' {nm}="{rng.choice(probes_vals[typ])}"'
                    if rng.random() < 0.3:
                        attrs += ' xmlns:o="urn:other" o:w="1"'
                    vd = schema.is_valid(f'<t:d xmlns:t="{M.TNS}"{attrs}/>')
                    vb = schema.is_valid(f'<t:b xmlns:t="{M.TNS}"{attrs}/>')
                    res.count('attributes:probes')
                    if vd and not vb:
                        found = attrs
                        break
                if found:
                    break
            if found:
                # which edit made it possible
                edits = []
                for nm, (u, t, fx) in d.items():
                    if nm not in b:
                        edits.append('added-attribute')
                    else:
                        bu, bt, bfx = b[nm]
                        if bu == 'required' and u != 'required':
                            edits.append(f'required-to-{u}')
                        if bu == 'optional' and u == 'prohibited':
                            edits.append('optional-to-prohibited')
                        if t != bt:
                            edits.append('type-changed')
                        if bfx and not fx:
                            edits.append('fixed-removed')
                if dw != bw:
                    edits.append('wildcard-changed')
                import re as _re
                wnames = set(_re.findall(r' ([a-z]+)="', found))
                primary = None
                for nm in sorted(wnames):
                    if nm in d and d[nm][0] == 'prohibited' and nm in b:
                        primary = ['optional-to-prohibited']
                        break
                if primary is None and any(nm in d and nm not in b for nm in wnames):
                    primary = ['added-attribute']
                if primary is None and any(nm in d and nm in b and d[nm][1] != b[nm][1] for nm in wnames):
                    primary = ['type-changed']
                if primary is None:
                    primary = [x for x in sorted(set(edits)) if x != 'wildcard-changed'] or sorted(set(edits))
                res.violation(f'attributes:{version}:{"+".join(primary) or "unchanged"}',
                              {'schema': text, 'attrs': found, 'version': version},
                              f'{version}: restriction accepted; attribute set{found} valid for derived only; base {b} {bw} derived {d} {dw}')
            else:
                res.count('attributes:agree')
    res.sample({'attribute_pairs': spec['n']})


def run_shard(spec, res):
    if spec['kind'] in ('catalogue', 'content'):
        run_content(spec, res)
    elif spec['kind'] == 'facets':
        run_facets(spec, res)
    else:
        run_attributes(spec, res)


def finalize(res, tier):
    c = res.counters
    reasons = []
    acc = sum(v for k, v in c.items() if ':accepted:' in k)
    ref = sum(v for k, v in c.items() if ':refused:' in k)
    if acc < 50 or ref < 50:
        reasons.append(f'too few content candidates judged (accepted {acc}, refused {ref})')
    if not c.get('facets:probes') or not c.get('attributes:probes'):
        reasons.append('facet or attribute workload did not run')
    return {'inconclusive': reasons, 'coverage': {'word_bound': 5 if tier == 'quick' else 6,
                                                   'over_strict': {k: v for k, v in c.items() if k.startswith('over_strict')}}}


def replay(case):
    xmlschema = env.activate_repo()
    cls = xmlschema.XMLSchema11 if case['version'] == '1.1' else xmlschema.XMLSchema10
    if 'base' in case:
        base, derived = M.to_tuple(case['base']), M.to_tuple(case['derived'])
        text = restriction_schema(base, derived, case['cfg'])
        print(text)
        schema, err = build(cls, text)
        if schema is None:
            print('refused now:', str(err)[:200])
            return False
        w = tuple(case['word'])
        vd, vb = schema.is_valid(M.instance_element(w, 'd')), schema.is_valid(M.instance_element(w, 'b'))
        print('word', ''.join(w), 'valid for derived', vd, 'valid for base', vb)
        return vd and not vb
    schema, err = build(cls, case['schema'])
    print(case['schema'])
    print(case)
    return schema is not None
