"""C15 - schema build accepts a content model exactly when it is deterministic (UPA + EDC)."""
from vk import env, modelkit as K
from vk.gen import models as M
from vk.ref import contentmodel as R

PROPERTY = 'C15'
LEVEL = 'exploration'
RULE = ('models: regression catalogue + exhaustive enumeration (all models with <= 3 particles over {a,b} x the full '
        'occurrence vocabulary, element / wildcard / substitution-head leaves; 4 particles over a reduced vocabulary; '
        'thorough runs all of it, quick a seed-rotated slice) + all pairs of wildcards over nine namespace constraints (lists, '
        'notNamespace) + seeded random nested models (depth <= 3) + EDC variants '
        '(two same-named element particles with equal / different types); each model is built strictly by XMLSchema10 and '
        'XMLSchema11 and the outcome (built / XMLSchemaModelError) is compared with an independent determinism decision '
        '(position automaton with unrolled occurrence ranges, and derivative-automaton exploration over marked symbols, '
        'which must agree); a case = (version, model); non-trivial = nested or counted model with >= 2 leaf particles of '
        'which two overlap in symbols, counted on distinct canonical models')
RULE += (' ' + 'Shard memberrefs: references to direct and indirect members of the head beside the head (both versions). Shard twoheads: XSD 1.1 models over references to two unrelated heads that share a substitution-group member.')
ASSUMPTIONS = [
    'UPA is read on particles: two unrolled copies of the same particle never clash (counter ambiguity is not a UPA violation)',
    'XSD 1.1: element/wildcard competition is not an error; wildcard/wildcard and element/element competition is',
    'models refused for other reasons than XMLSchemaModelError are counted and excluded',
    'libxml2 is advisory only here (it is wrong in both directions on counted particles)',
]
ANCHORS = {
    'xmlschema/validators/models.py': [(36, 174)],
    'xmlschema/validators/elements.py': [(1205, 1228), (1365, 1413)],
    'xmlschema/validators/wildcards.py': [(586, 618), (793, 803)],
    'xmlschema/validators/xsd_globals.py': [(684, 694)],
}
SHARD_TIMEOUT = {'quick': 900, 'thorough': 5400}
LEVEL_TEXT = ('Runtime exploration with a reference-model oracle: the real schema builder decides determinism of tens of '
              'thousands of enumerated and random content models; its decision is compared with two independent automata '
              'constructions. Exhaustive for the stated small-model bounds in the thorough tier.')
LEVEL_NOTE = ('Trusted: vk/ref/contentmodel.py (Glushkov + derivative formulations must agree), AST->XSD renderer. '
              'Known defects of the path-based heuristic are listed by mechanism in known_findings.json.')
TECHNIQUE = 'runtime monitoring: reference-model oracle (two automata constructions) over enumerated and seeded schema builds'

E4_OCCURS = ((0, 1), (1, 1), (0, None), (2, 2))
SUBSTS = ('plain', 'head_abstract', 'member_abstract', 'blocked')


def catalogue():
    e = lambda n, mn=1, mx=1: ('e', n, mn, mx)
    t = lambda n, ty, mn=1, mx=1: ('t', n, ty, mn, mx)
    s = lambda kids, mn=1, mx=1: ('s', tuple(kids), mn, mx)
    c = lambda kids, mn=1, mx=1: ('c', tuple(kids), mn, mx)
    a = lambda kids, mn=1, mx=1: ('a', tuple(kids), mn, mx)
    w = lambda con, mn=1, mx=1: ('w', con, mn, mx)
    h = lambda mn=1, mx=1: ('h', mn, mx)
    return [
        # one named group referenced twice with different occurrence ranges (the references share the group's particles)
        (s([s([e('a')], 0, 1), s([e('a')])]), {'groupref': True}),
        (s([s([e('a'), e('b', 0, 1)], 0, None), s([e('a'), e('b', 0, 1)])]), {'groupref': True}),
        (c([c([e('a'), e('b')], 0, 1), c([e('a'), e('b')], 1, 2)]), {'groupref': True}),
        (s([s([e('a')], 0, 1), e('b'), s([e('a')])]), {'groupref': True}),
        (s([e('a', 0, 1), e('a')]), {}),
        (s([e('a'), e('a', 0, 1)]), {}),
        (c([e('a'), e('a')]), {}),
        (c([e('a'), s([e('a'), e('b')])]), {}),
        (s([e('b'), e('b', 0, 1)], 1, 2), {}),
        (s([e('a'), e('c', 1, None), e('a', 0, None)], 1, None), {}),
        (s([e('b', 2, 2), e('b', 2, 2)], 1, 2), {}),
        (c([e('c'), e('c', 0, 1)], 1, None), {}),
        (s([e('a', 0, None), e('b'), e('a')]), {}),
        (s([c([e('a'), e('b')], 0, None), e('a')]), {}),
        (s([w('other', 0, 1), w('n1')]), {}),
        (s([w('other', 0, 1), w('local')]), {}),
        (s([w('tns', 0, 1), e('a')]), {}),
        (s([e('a', 0, 1), w('tns')]), {}),
        (c([e('a'), w('any')]), {}),
        (s([h(0, 1), e('a')]), {}),
        (s([h(0, 1), ('e', 'a', 1, 1)]), {'subst': 'plain'}),
        (c([h(), w('tns')]), {}),
        (a([e('a'), e('b')]), {}),
        (s([e('a'), t('a', 'int')]), {}),
        (s([e('a'), e('b'), t('a', 'int')]), {}),
        (c([s([e('a'), e('b')]), s([e('c'), t('a', 'int')])]), {}),
        (s([t('a', 'int'), e('b'), t('a', 'int')]), {}),
    ]


def plan(tier, seed):
    specs = [{'kind': 'catalogue'}, {'kind': 'explicit'}]
    if tier == 'quick':
        take3 = [(seed % 8, 8, p, 6) for p in range(6)]
        take4 = [(seed % 16, 16, p, 4) for p in range(4)]
        nrand, rshards = 1500, 6
    else:
        take3 = [(sl, 32, 0, 1) for sl in range(32)]
        take4 = [(sl, 32, 0, 1) for sl in range(32)]
        nrand, rshards = 60000, 48
    for sl, nsl, part, parts in take3:
        specs.append({'kind': 'enum3', 'slice': sl, 'nslices': nsl, 'part': part, 'parts': parts})
    for sl, nsl, part, parts in take4:
        specs.append({'kind': 'enum4', 'slice': sl, 'nslices': nsl, 'part': part, 'parts': parts})
    for r in range(rshards):
        specs.append({'kind': 'random', 'n': nrand // rshards, 'rshard': r})
    for part in range(2 if tier == 'quick' else 1):
        specs.append({'kind': 'twoheads', 'part': (seed + part) % 6 if tier == 'quick' else 0, 'parts': 6 if tier == 'quick' else 1})
    for part in range(2 if tier == 'quick' else 1):
        specs.append({'kind': 'memberrefs', 'part': (seed + part) % 6 if tier == 'quick' else 0, 'parts': 6 if tier == 'quick' else 1})
    # wildcard pairs / triples over the full constraint vocabulary (lists and notNamespace included)
    wparts = 8
    for part in range(wparts):
        specs.append({'kind': 'enumw', 'part': part, 'parts': wparts, 'triples': tier != 'quick'})
    return specs


def ref_verdict(node, cfg, version):
    """('det'|'nondet'|'edc'|None, detail)."""
    model = R.Model(node, cfg)
    edc = R.edc_violation(model)
    if edc:
        return 'edc', edc
    det, why = R.deterministic(model, version)
    if det is None:
        return None, why
    return ('det' if det else 'nondet'), why


def overlapping(node, cfg):
    model = R.Model(node, cfg)
    lids = list(model.leaf_syms)
    return any(model.leaf_syms[a] & model.leaf_syms[b] for i, a in enumerate(lids) for b in lids[i + 1:])


def judge(res, node, cfg, origin):
    node = M.to_tuple(node)
    for version in ('1.0', '1.1'):
        if version == '1.0' and (cfg.get('open') or cfg.get('two_heads') or not K.expressible_10(node)):
            continue
        ref, why = ref_verdict(node, cfg, version)
        if ref is None:
            res.inconclusive_case('determinism formulations disagree or cut', [M.text(node) + K.cfg_text(cfg), version, str(why)[:200]])
            continue
        status, obj = K.build_model_schema(node, cfg, version)
        res.evaluations += 1
        if status in ('parse_error', 'foreign'):
            res.count(f'{version}:other_build_error:{status}')
            if status == 'foreign':
                res.violation('foreign-exception-at-build:' + type(obj).__name__,
                              {'node': node, 'cfg': cfg, 'version': version}, M.text(node) + ' ' + repr(obj)[:200])
            continue
        accepted = status == 'ok'
        res.count(f'{version}:ref_{ref}:lib_{"accepts" if accepted else "rejects"}')
        if M.size(node) >= 3 and overlapping(node, cfg):
            res.nontrivial.add(env.h8((version, M.text(node), K.cfg_text(cfg))))
        if accepted == (ref == 'det'):
            if len(res.samples) < 2:
                res.sample({'model': M.text(node) + K.cfg_text(cfg), 'version': version, 'reference': ref, 'built': accepted})
            continue
        direction = 'missed' if accepted else 'false-alarm'
        # Is the wrong verdict the one the pinned pairwise-path procedure gives (a listed weakness), or does the tree
        # decide differently from it (something new)? The shrinker keeps that answer fixed, otherwise a new miss drifts
        # to a smaller model that shows a listed one.
        same0 = same_as_pinned(node, cfg, version, accepted)
        res.count(f'{version}:wrong_verdict:' + {True: 'same_as_pinned_procedure', False: 'differs_from_pinned_procedure', None: 'pinned_procedure_not_run'}[same0])
        mnode, mcfg, _ = K.shrink(node, cfg, (), lambda n2, c2, ws: () if still(n2, c2, version, direction, ref) and
                                  same_as_pinned(M.to_tuple(n2), c2, version, accepted) == same0 else None)
        mref, mwhy = ref_verdict(mnode, mcfg, version)
        mech = classify(mnode, mcfg, version, direction, mref)
        if same0 is False:
            head, sep, tail = mech.partition(': ')
            mech = head + ':not-the-verdict-of-the-pinned-procedure' + sep + tail
        res.violation(mech, {'node': mnode, 'cfg': mcfg, 'version': version, 'direction': direction},
                      f'{direction} ({version}): reference says {mref} for {M.text(mnode)}{K.cfg_text(mcfg)} '
                      f'[{str(mwhy)[:120]}] (from {origin}: {M.text(node)}{K.cfg_text(cfg)})')


_lax_cache = {}


def same_as_pinned(node, cfg, version, accepted):
    """Does the frozen copy of the pinned check_model (vk/ref/pinned_upa.py), run on the live components, give the
    verdict the tree gave? None when it cannot be run."""
    from vk.ref import pinned_upa
    key = (version, M.render_schema(node, cfg, None))
    if key not in _lax_cache:
        if len(_lax_cache) > 300:
            _lax_cache.clear()
        try:
            _lax_cache[key] = K.schema_class(version)(key[1], validation='lax')
        except Exception:
            _lax_cache[key] = None
    schema = _lax_cache[key]
    if schema is None or 'T' not in schema.types or not hasattr(schema.types['T'].content, 'iter_elements'):
        return None
    verdict = pinned_upa.pinned_accepts(schema.types['T'].content)
    return None if verdict is None else verdict == accepted


def still(node, cfg, version, direction, ref0):
    if version == '1.0' and (cfg.get('open') or not K.expressible_10(node)):
        return False
    ref, _ = ref_verdict(node, cfg, version)
    if ref is None or (ref == 'det') != (ref0 == 'det'):
        return False
    if ref0 != 'det' and ref != ref0:
        return False
    status, obj = K.build_model_schema(node, cfg, version)
    if status not in ('ok', 'model_error'):
        return False
    return (status == 'ok') == (direction == 'missed')


def node_at(node, path):
    for i in path:
        node = node[1][i]
    return node


def flatten_repetition(node):
    """The same model with every group occurring at most once (removes iteration boundaries)."""
    if M.is_group(node):
        return (node[0], tuple(flatten_repetition(c) for c in node[1]), min(node[2], 1), 1)
    return node


def classify(node, cfg, version, direction, ref):
    """Mechanism of a minimal witness."""
    if ref == 'edc':
        return f'edc:{direction}: {M.text(node)}{K.cfg_text(cfg)}'
    if direction == 'missed':
        model = R.Model(node, cfg)
        w = R.upa_glushkov(model, version)
        if not isinstance(w, dict) or len(w.get('particles', ())) != 2:
            return f'upa-missed:unclassified: {M.text(node)}{K.cfg_text(cfg)}'
        flat = flatten_repetition(node)
        if R.deterministic(R.Model(flat, cfg), version)[0]:
            return 'upa-missed:iteration-boundary'
        p1, p2 = w['particles']
        if p1 == ('open',) or p2 == ('open',):
            return 'upa-missed:open-content'
        # check_model keeps one remembered path per particle *name* (all wildcards share one key):
        # a later particle with the same key hides the earlier one from the comparison
        order = sorted(model.leaf_node)
        first, second = sorted((p1, p2))
        key = lambda lid: 'wildcard' if model.leaf_kind[lid] == 'w' else model.leaf_node[lid][1 if model.leaf_node[lid][0] != 'h' else 0]
        if any(first < q < second and key(q) == key(first) for q in order):
            return 'upa-missed:earlier-particle-shadowed-by-same-name'
        k = 0
        while k < min(len(p1), len(p2)) and p1[k] == p2[k]:
            k += 1
        anc = node_at(node, p1[:k])
        nested = len(p1) > k + 1 or len(p2) > k + 1
        kind = {'c': 'choice-branches', 's': 'sequence-skip', 'a': 'all-group'}[anc[0]]
        return f'upa-missed:{kind}-{"nested" if nested else "direct"}'
    # false alarm: deterministic model refused
    nested_emptiable = any(g is not node and R.nullable(R.Model(g).expr) for g in groups_of(node))
    # (minimal witnesses of this family reach 8-9 particles when the emptiable group sits in a nested choice)
    if nested_emptiable and M.size(node) <= 9:
        return 'upa-false-alarm:nested-emptiable-group'
    return f'upa-false-alarm:unclassified: {M.text(node)}{K.cfg_text(cfg)}'


def particles_below(g):
    for c in g[1]:
        yield c
        if M.is_group(c):
            yield from particles_below(c)


def groups_of(node):
    if M.is_group(node):
        yield node
        for c in node[1]:
            yield from groups_of(c)


def edc_variant(rng, node):
    """Retype one element leaf whose name occurs at least twice (or rename to force a pair)."""
    leaves = [lf for lf in M.leaves(node) if lf[0] == 'e']
    if len(leaves) < 2:
        return None
    target = rng.randrange(len(leaves))
    other = rng.choice([i for i in range(len(leaves)) if i != target])
    name = leaves[other][1]
    typ = rng.choice(('int', 'string', 'token'))
    counter = [0]

    def rw(n):
        if n[0] == 'e':
            i = counter[0]
            counter[0] += 1
            if i == target:
                return ('t', name, typ, n[2], n[3])
            return n
        if M.is_group(n):
            return (n[0], tuple(rw(c) for c in n[1]), n[2], n[3])
        return n
    return rw(node)


def explicit_catalogue():
    """Hand-written schemas for the form of local declarations (outside the model AST, whose locals are qualified):
    an unqualified local element is in no namespace whatever the schema document's default xmlns is."""
    XS = M.XS
    out = []
    for default_ns in (True, False):
        for form in ('unqualified', 'qualified'):
            for con, con_admits_tns, con_admits_none in (('##targetNamespace', True, False), ('##local', False, True),
                                                         ('##other', False, False), ('##any', True, True)):
                xmlns = ' xmlns="urn:b"' if default_ns else ''
                text = (f'<xs:schema xmlns:xs="{XS}" targetNamespace="urn:b"{xmlns} elementFormDefault="{form}">'
                        f'<xs:element name="r"><xs:complexType><xs:sequence>'
                        f'<xs:any namespace="{con}" minOccurs="0" processContents="lax"/>'
                        f'<xs:element name="e" type="xs:string"/></xs:sequence></xs:complexType></xs:element></xs:schema>')
                clash = con_admits_tns if form == 'qualified' else con_admits_none
                out.append((f'default-xmlns={default_ns} form={form} any={con}', text, clash))
    return out


EDC_XSD = f'''<xs:schema xmlns:xs="{M.XS}">
<xs:complexType name="T"><xs:sequence/></xs:complexType>
<xs:complexType name="T2"><xs:complexContent><xs:extension base="T"><xs:attribute name="x"/></xs:extension></xs:complexContent></xs:complexType>
<xs:element name="H" type="T"/><xs:element name="S" type="T" substitutionGroup="H"/><xs:element name="S2" type="T2" substitutionGroup="S"/>
<xs:element name="r"><xs:complexType><xs:sequence>MODEL</xs:sequence></xs:complexType></xs:element></xs:schema>'''
# Element Declarations Consistent: particles that can match one name must agree on its type. H, S (substitutes H) and
# S2 (substitutes S, with a type derived from S's) are global declarations: wherever two particles of a model can match
# one of these names they resolve to the same declaration, so the models below are consistent; a separator element keeps
# them deterministic
EDC_MODELS = [('<xs:element ref="S"/><xs:element name="sep"/><xs:element ref="H"/>', True),
              ('<xs:element ref="H"/><xs:element name="sep"/><xs:element ref="S"/>', True),
              ('<xs:element ref="S2"/><xs:element name="sep"/><xs:element ref="H"/>', True),
              ('<xs:element ref="S"/><xs:element name="sep"/><xs:element ref="S2"/>', True)]


def run_explicit(res):
    xmlschema = env.activate_repo()
    for model, want in EDC_MODELS:
        for version, cls in (('1.0', xmlschema.XMLSchema10), ('1.1', xmlschema.XMLSchema11)):
            text = EDC_XSD.replace('MODEL', model)
            try:
                cls(text)
                built, why = True, ''
            except xmlschema.XMLSchemaException as e:
                built, why = False, str(e)[:160]
            res.evaluations += 1
            res.count('explicit:edc_models')
            if built != want:
                res.violation('edc-false-alarm:substitution-members-with-derived-types' if not built else 'edc-missed',
                              {'explicit': model, 'version': version, 'xsd': text}, f'{version}: {model}: built={built} {why}')
            else:
                res.count('explicit:agree')
    for label, text, clash in explicit_catalogue():
        for version, cls in (('1.0', xmlschema.XMLSchema10), ('1.1', xmlschema.XMLSchema11)):
            want_det = not clash or version == '1.1'    # 1.1: an element beside a wildcard is never a clash
            try:
                cls(text)
                built = True
            except xmlschema.XMLSchemaException as e:
                built = False
                if 'Unique Particle Attribution' not in str(e):
                    res.count('explicit:other_build_error')
                    continue
            res.evaluations += 1
            res.count('explicit:models')
            res.nontrivial.add(env.h8(('explicit', label, version)))
            if built != want_det:
                res.violation(('upa-missed' if built else 'upa-false-alarm') + ':local-element-form-and-default-xmlns',
                              {'explicit': label, 'version': version, 'xsd': text},
                              f'{version}: {label}: built={built}, the local element and the wildcard '
                              f'{"compete" if clash else "do not compete"} for a name')
            else:
                res.count('explicit:agree')


def run_shard(spec, res):
    env.activate_repo()
    kind = spec['kind']
    if kind == 'explicit':
        return run_explicit(res)
    if kind == 'catalogue':
        for node, cfg in catalogue():
            judge(res, node, cfg, 'catalogue')
    elif kind in ('enum3', 'enum4'):
        lk = ('e', 'w', 'h')
        it = M.enumerate_models(3, names=('a', 'b'), leaf_kinds=lk, wild_cons=('other', 'tns')) if kind == 'enum3' else \
            (n for n in M.enumerate_models(4, names=('a', 'b'), occurs=E4_OCCURS) if M.size(n) == 4)
        k = 0
        for i, node in enumerate(it):
            if i % spec['nslices'] != spec['slice']:
                continue
            k += 1
            if k % spec['parts'] != spec['part']:
                continue
            res.count(kind + ':models')
            judge(res, node, {}, kind)
    elif kind == 'twoheads':
        # XSD 1.1: one element (m) in the substitution groups of two unrelated heads (h and g): the particles of the two
        # heads compete for m although neither head substitutes the other
        import itertools
        occs = ((1, 1), (0, 1), (0, None))
        leaves = [('h', o[0], o[1]) for o in occs] + [('r', 'g~g,m', o[0], o[1]) for o in occs] + \
                 [('r', 'm~m', o[0], o[1]) for o in occs] + [('e', 'a', o[0], o[1]) for o in occs[:2]]
        k = 0
        shapes = itertools.chain(itertools.product(leaves, repeat=2), itertools.product(leaves, repeat=3))
        for kids in shapes:
            if not any(c[0] == 'r' and c[1].startswith('g') for c in kids):
                continue
            for g in ('s', 'c'):
                for wrap in (False, True):
                    k += 1
                    if k % spec['parts'] != spec['part']:
                        continue
                    node = (g, tuple(kids), 1, 1)
                    if wrap:
                        node = ('s', (('c', tuple(kids[:2]), 0, 1),) + tuple(kids[2:]) + (('e', 'b', 1, 1),), 1, 2)
                    res.count('twoheads:models')
                    judge(res, node, {'two_heads': True}, 'twoheads')
    elif kind == 'memberrefs':
        # references to members of the head's substitution group beside the head itself (k and its member j substitute
        # h; j does so only through k): both versions
        import itertools
        occs = ((1, 1), (0, 1), (0, None))
        leaves = [('h', o[0], o[1]) for o in occs] + [('r', 'k~k,j', o[0], o[1]) for o in occs] + \
                 [('r', 'j~j', o[0], o[1]) for o in occs] + [('r', 'm~m', o[0], o[1]) for o in occs[:2]] + [('e', 'a', 1, 1)]
        k = 0
        for kids in itertools.chain(itertools.product(leaves, repeat=2), itertools.product(leaves, repeat=3)):
            if not any(c[0] == 'r' for c in kids):
                continue
            for g in ('s', 'c'):
                k += 1
                if k % spec['parts'] != spec['part']:
                    continue
                res.count('memberrefs:models')
                judge(res, (g, tuple(kids), 1, 1), {'subst': 'plain'}, 'memberrefs')
    elif kind == 'enumw':
        cons = M.WILDCARD_CONS + M.WILDCARD_CONS_MORE
        occs = ((1, 1), (0, 1), (1, None))
        leaves = [('w', c, o[0], o[1]) for c in cons for o in occs]
        k = 0
        import itertools
        shapes = itertools.chain(((l1, l2) for l1 in leaves for l2 in leaves),
                                 ((l1, ('e', 'a', 1, 1), l2) for l1 in leaves for l2 in leaves) if spec['triples'] else ())
        for kids in shapes:
            for g in ('s', 'c'):
                for go in ((1, 1), (1, 2)):
                    k += 1
                    if k % spec['parts'] != spec['part']:
                        continue
                    res.count('enumw:models')
                    judge(res, (g, tuple(kids), go[0], go[1]), {}, 'enumw')
    else:
        rng = env.rng_for(PROPERTY, spec['tier'], spec['seed'], spec['rshard'])
        for i in range(spec['n']):
            cfg = {}
            r = rng.random()
            if r < 0.08:
                node = M.sample_all_model(rng, rng.choice(('1.0', '1.1')))
            else:
                node = M.sample_model(rng, max_depth=rng.choice((2, 3)), names=rng.choice((('a', 'b'), ('a', 'b', 'c'))),
                                      leaf_weights={'e': 8, 'w': 2, 'h': 1})
                if rng.random() < 0.12:
                    v = edc_variant(rng, node)
                    if v is not None:
                        node = v
                        res.count('random:edc_variants')
            if any(lf[0] == 'h' for lf in M.leaves(node)):
                cfg['subst'] = rng.choice(SUBSTS)
            if rng.random() < 0.1:
                cfg['groupref'] = True
            res.count('random:models')
            judge(res, node, cfg, 'random')


def finalize(res, tier):
    c = res.counters
    reasons = []
    for v in ('1.0', '1.1'):
        for k in (f'{v}:ref_det:lib_accepts', f'{v}:ref_nondet:lib_rejects'):
            if not c.get(k):
                reasons.append(f'deciding tally {k} is empty')
    if not (c.get('1.0:ref_edc:lib_rejects') or c.get('1.1:ref_edc:lib_rejects')):
        reasons.append('no EDC violation was ever observed being rejected')
    return {'inconclusive': reasons}


def replay(case):
    env.activate_repo()
    node, cfg, version = M.to_tuple(case['node']), case['cfg'], case['version']
    ref, why = ref_verdict(node, cfg, version)
    status, obj = K.build_model_schema(node, cfg, version)
    print(M.text(node) + K.cfg_text(cfg), version, 'reference', ref, why, 'library build', status, str(obj)[:300] if status != 'ok' else '')
    print(M.render_schema(node, cfg))
    return ref is not None and status in ('ok', 'model_error') and (status == 'ok') != (ref == 'det')
