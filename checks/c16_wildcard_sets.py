"""C16 - wildcard namespace constraints behave as sets of allowed names.

Exhaustive over a finite catalogue of constraints (vk.ref.wildcardsets): every ordered pair x
{membership, union (attribute-wildcard extension, 1.1 openContent extension), intersection
(combined attribute groups), restriction (attribute and element wildcards), overlap (UPA of two
adjacent element wildcards)}; observed both on the built components (direct calls on copies of
the library's wildcard objects) and through instance validation against the derived types.
"""
import itertools
import random

from vk import env
from vk.ref import wildcardsets as W

PROPERTY = 'C16'
LEVEL = 'exploration'
EXHAUSTIVE = {'quick': False, 'thorough': True}
RULE = ('every ordered pair of catalogue constraints (##any, ##other, every non-empty list over '
        '{##local, ##targetNamespace, n1, n2}; 1.1 adds notNamespace lists and one-name notQName '
        'variants) x operation x route (component call / instance validation), evaluated on the '
        'universe {absent, target, n1, n2, fresh} x {a, zz}; a case is one (version, op, route, c1, '
        'c2); plus three-way attribute-group intersections and one group shared by three types (alone, with an own wildcard, '
        'extended from a base with a wildcard); non-trivial = the two constraints denote different, non-empty, non-universal sets; '
        'quick enumerates all 1.0 pairs, all 1.1 pairs on the component route and a seeded slice of '
        '1.1 pairs on the instance route; thorough enumerates everything')
RULE += (' ' + 'Route cross: the catalogue is declared in two schema documents with different target namespaces and every pair with a ##other operand is pushed through union / intersection / restriction / overlap across the documents (##other is relative to the declaring document).')
ASSUMPTIONS = [
    'the XSI namespace is outside the universe (the library admits it specially)',
    'is_restriction=True => inclusion is claimed; the converse is only tallied (over_strict)',
    'a union the version cannot express may be refused at build time (1.0: anything that is not '
    '##any, ##other or a finite list); refusals of expressible unions are tallied, not flagged',
    'processContents is skip everywhere, so only the name sets decide',
]
ANCHORS = {
    'xmlschema/validators/wildcards.py': [(164, 388), (586, 618), (747, 845)],
    'xmlschema/validators/attributes.py': [(423, 431), (497, 502), (522, 535)],
    'xmlschema/validators/complex_types.py': [(913, 919)],
}
SHARD_TIMEOUT = {'quick': 600, 'thorough': 3000}

XS = 'http://www.w3.org/2001/XMLSchema'
HEAD = (f'<xs:schema xmlns:xs="{XS}" targetNamespace="{W.TNS}" xmlns:t="{W.TNS}" '
        f'xmlns:p1="{W.N1}" xmlns:p2="{W.N2}" xmlns:pf="{W.FRESH}" elementFormDefault="qualified">\n')
TAIL = '</xs:schema>\n'


def plan(tier, seed):
    specs = []
    for version in ('1.0', '1.1'):
        n = len(W.constraints(version))
        specs.append({'kind': 'component', 'version': version})
        specs.append({'kind': 'cross', 'version': version})
        pairs = [(i, j) for i in range(n) for j in range(n)]
        if version == '1.1' and tier == 'quick':
            plain = [k for k, c in enumerate(W.constraints(version)) if not c[2]]
            base = [(i, j) for i in plain for j in plain]
            rest = [p for p in pairs if p[0] not in plain or p[1] not in plain]
            rng = env.rng_for(PROPERTY, tier, seed, 'slice')
            rng.shuffle(rest)
            # quick keeps every other plain pair (seed-chosen parity) + a seeded notQName slice
            par = seed % 2
            pairs = [p for k, p in enumerate(base) if k % 2 == par] + rest[:700]
        nshards = 4 if version == '1.0' else (12 if tier == 'quick' else 28)
        for s in range(nshards):
            specs.append({'kind': 'instance', 'version': version, 'pairs': pairs[s::nshards]})
    return specs


# ---------------------------------------------------------------------------------------------
def ns_class(ns):
    return {'': 'absent', W.TNS: 'tns', W.FRESH: 'fresh'}.get(ns, 'pool')


def mech(op, route, version, c1, c2, lib, ref):
    lost = sorted({ns_class(n) + ('' if ln == 'zz' else '.notq-name') for n, ln in ref - lib})
    extra = sorted({ns_class(n) + ('' if ln == 'zz' else '.notq-name') for n, ln in lib - ref})
    k1 = c1[0] + ('-q' if c1[2] else '')
    k2 = c2[0] + ('-q' if c2[2] else '') if c2 is not None else '-'
    return f'{op}/{version}/{k1}+{k2}/lost={",".join(lost)}/extra={",".join(extra)}'


def show(c):
    return None if c is None else W.render_attrs(c)


def is_nontrivial(c1, c2):
    d1, d2 = W.denote(c1), W.denote(c2)
    full = frozenset(W.UNIVERSE)
    return d1 != d2 and d1 and d2 and d1 != full and d2 != full


# ---------------------------------------------------------------------------------------------
def lib_set(wild):
    """Set of universe names the library's wildcard object admits."""
    return frozenset((ns, ln) for ns, ln in W.UNIVERSE if wild.is_matching(W.expanded(ns, ln)))


def run_component(spec, res):
    import copy
    xmlschema = env.activate_repo()
    from xmlschema import XMLSchema10, XMLSchema11
    version = spec['version']
    cls = XMLSchema10 if version == '1.0' else XMLSchema11
    cons = W.constraints(version)
    body = []
    for i, c in enumerate(cons):
        a = W.render_attrs(c)
        body.append(f'<xs:complexType name="e{i}"><xs:sequence><xs:any {a} processContents="skip"/>'
                    f'</xs:sequence></xs:complexType>')
        body.append(f'<xs:attributeGroup name="g{i}"><xs:anyAttribute {a} processContents="skip"/>'
                    f'</xs:attributeGroup>')
    schema = cls(HEAD + '\n'.join(body) + TAIL)
    ew = [schema.types[f'e{i}'].content[0] for i in range(len(cons))]
    aw = [schema.attribute_groups[f'g{i}'][None] for i in range(len(cons))]
    for i, c in enumerate(cons):
        for route, wl in (('elem', ew), ('attr', aw)):
            ref = W.denote(c)
            lib = lib_set(wl[i])
            res.case(env.h8(('m', version, route, i)))
            res.count(f'component:membership:{route}')
            if lib != ref:
                res.violation(mech('membership-' + route, 'component', version, c, None, lib, ref),
                              {'kind': 'component', 'op': 'membership', 'route': route, 'version': version, 'i': i},
                              f'{show(c)}: library admits {sorted(lib)} reference {sorted(ref)}')
    for i, j in itertools.product(range(len(cons)), repeat=2):
        c1, c2 = cons[i], cons[j]
        d1, d2 = W.denote(c1), W.denote(c2)
        nt = env.h8(('c', version, i, j)) if is_nontrivial(c1, c2) else None
        for route, wl in (('elem', ew), ('attr', aw)):
            for op, ref in (('union', d1 | d2), ('intersection', d1 & d2)):
                w = copy.copy(wl[i])
                res.case(nt)
                res.count(f'component:{op}:{route}')
                try:
                    getattr(w, op)(wl[j])
                except xmlschema.XMLSchemaException as e:
                    if version == '1.0' and not W.expressible_10(ref):
                        res.count(f'component:{op}:refused_inexpressible')
                    else:
                        res.count(f'component:{op}:refused_expressible')
                        res.sample({'refused_expressible': [version, op, show(c1), show(c2), str(e)[:80]]})
                    continue
                lib = lib_set(w)
                if lib != ref:
                    res.violation(mech(op + '-' + route, 'component', version, c1, c2, lib, ref),
                                  {'kind': 'component', 'op': op, 'route': route, 'version': version, 'i': i, 'j': j},
                                  f'{show(c1)} {op} {show(c2)}: library {sorted(lib)} reference {sorted(ref)}')
            # restriction: wl[j] restricting wl[i]
            res.case(nt)
            res.count(f'component:restriction:{route}')
            r = wl[j].is_restriction(wl[i])
            incl = d2 <= d1
            if r and not incl:
                res.violation(mech('restriction-' + route, 'component', version, c2, c1, d2, d1),
                              {'kind': 'component', 'op': 'restriction', 'route': route, 'version': version, 'i': i, 'j': j},
                              f'{show(c2)} accepted as restriction of {show(c1)} but admits {sorted(d2 - d1)}')
            elif incl and not r:
                res.count('component:restriction:over_strict')
            else:
                res.count('component:restriction:agree_' + ('yes' if r else 'no'))
        # overlap (element wildcards only)
        res.case(nt)
        res.count('component:overlap')
        ov = ew[i].is_overlap(ew[j])
        refov = bool(d1 & d2)
        if ov != refov:
            res.violation(f'overlap/{version}/{c1[0]}{"-q" if c1[2] else ""}+{c2[0]}{"-q" if c2[2] else ""}/lib={ov}',
                          {'kind': 'component', 'op': 'overlap', 'version': version, 'i': i, 'j': j},
                          f'is_overlap({show(c1)}, {show(c2)}) = {ov}, sets intersect: {sorted(d1 & d2)}')
        else:
            res.count('component:overlap:agree_' + ('yes' if ov else 'no'))
    res.sample({'component_route': version, 'constraints': len(cons),
                'example': [show(cons[1]), 'union', show(cons[5]), sorted(W.denote(cons[1]) | W.denote(cons[5]))]})


def run_cross(spec, res):
    """Wildcards declared in schema documents of different target namespaces (a type of one namespace extended or
    restricted in another, a group of one namespace used in another): ##other is relative to the declaring document."""
    import copy
    xmlschema = env.activate_repo()
    from xmlschema import XMLSchema10, XMLSchema11
    version = spec['version']
    cls = XMLSchema10 if version == '1.0' else XMLSchema11
    cons = [c for c in W.constraints(version) if not c[2]]

    def catalogue(tns):
        body = []
        for i, c in enumerate(cons):
            a = W.render_attrs(c, tns)
            body.append(f'<xs:complexType name="e{i}"><xs:sequence><xs:any {a} processContents="skip"/></xs:sequence></xs:complexType>')
            body.append(f'<xs:attributeGroup name="g{i}"><xs:anyAttribute {a} processContents="skip"/></xs:attributeGroup>')
        return HEAD.replace(f'targetNamespace="{W.TNS}"', f'targetNamespace="{tns}"') + '\n'.join(body) + TAIL
    home = cls(catalogue(W.TNS))
    home.add_schema(catalogue(W.N1), namespace=W.N1, build=True)
    tnss = (W.TNS, W.N1)
    wl = {}
    for tns in tnss:
        wl['elem', tns] = [home.maps.types['{%s}e%d' % (tns, i)].content[0] for i in range(len(cons))]
        wl['attr', tns] = [home.maps.attribute_groups['{%s}g%d' % (tns, i)][None] for i in range(len(cons))]
    for tns in tnss:
        for route in ('elem', 'attr'):
            for i, c in enumerate(cons):
                res.count('cross:membership')
                lib, ref = lib_set(wl[route, tns][i]), W.denote(c, tns)
                if lib != ref:
                    res.violation(mech('membership-' + route, 'cross', version, c, None, lib, ref),
                                  {'kind': 'cross', 'op': 'membership', 'route': route, 'version': version, 'i': i, 'tns': tns},
                                  f'{show(c)} declared in {tns}: library admits {sorted(lib)} reference {sorted(ref)}')
    for t1, t2 in ((W.TNS, W.N1), (W.N1, W.TNS)):
        for i, j in itertools.product(range(len(cons)), repeat=2):
            c1, c2 = cons[i], cons[j]
            if 'other' not in (c1[0], c2[0]):
                continue    # only ##other depends on the declaring document
            d1, d2 = W.denote(c1, t1), W.denote(c2, t2)
            nt = env.h8(('x', version, t1, i, j)) if d1 != d2 and d1 and d2 else None
            tag = f'[{ns_class(t1)}-document]+[{ns_class(t2)}-document]'
            for route in ('elem', 'attr'):
                w1, w2 = wl[route, t1][i], wl[route, t2][j]
                for op, ref in (('union', d1 | d2), ('intersection', d1 & d2)):
                    w = copy.copy(w1)
                    res.case(nt)
                    res.count(f'cross:{op}:{route}')
                    try:
                        getattr(w, op)(w2)
                    except xmlschema.XMLSchemaException:
                        res.count(f'cross:{op}:refused')
                        continue
                    lib = lib_set(w)
                    if lib != ref:
                        if version == '1.0' and not expressible_10_in(ref, t1):
                            res.count(f'cross:{op}:inexpressible_in_1.0_approximated')
                            continue
                        res.violation(mech(op + '-' + route, 'cross', version, c1, c2, lib, ref) + tag,
                                      {'kind': 'cross', 'op': op, 'route': route, 'version': version, 'i': i, 'j': j, 't1': t1},
                                      f'{show(c1)} (in {t1}) {op} {show(c2)} (in {t2}): library {sorted(lib)} reference {sorted(ref)}')
                res.case(nt)
                res.count(f'cross:restriction:{route}')
                r = w2.is_restriction(w1)
                if r and not d2 <= d1:
                    res.violation(mech('restriction-' + route, 'cross', version, c2, c1, d2, d1) + tag,
                                  {'kind': 'cross', 'op': 'restriction', 'route': route, 'version': version, 'i': i, 'j': j, 't1': t1},
                                  f'{show(c2)} (in {t2}) accepted as restriction of {show(c1)} (in {t1}) but admits {sorted(d2 - d1)}')
                else:
                    res.count('cross:restriction:' + ('agree' if r == (d2 <= d1) else 'over_strict'))
            res.case(nt)
            res.count('cross:overlap')
            ov = wl['elem', t1][i].is_overlap(wl['elem', t2][j])
            if ov != bool(d1 & d2):
                res.violation(f'overlap/{version}/{c1[0]}+{c2[0]}/lib={ov}{tag}',
                              {'kind': 'cross', 'op': 'overlap', 'version': version, 'i': i, 'j': j, 't1': t1},
                              f'is_overlap({show(c1)} in {t1}, {show(c2)} in {t2}) = {ov}, sets intersect: {sorted(d1 & d2)}')
            else:
                res.count('cross:overlap:agree_' + ('yes' if ov else 'no'))


def expressible_10_in(s, tns):
    """Can the set be written as one XSD 1.0 wildcard of a document with target namespace tns?"""
    nss = frozenset(ns for ns, _ in s)
    return W.FRESH not in nss or nss == frozenset(W.NAMESPACES) or nss == frozenset(W.NAMESPACES) - {'', tns}


# ---------------------------------------------------------------------------------------------
def attr_schema(a1, a2):
    return HEAD + f'''
<xs:complexType name="B"><xs:anyAttribute {a1} processContents="skip"/></xs:complexType>
<xs:complexType name="D"><xs:complexContent><xs:extension base="t:B">
  <xs:anyAttribute {a2} processContents="skip"/></xs:extension></xs:complexContent></xs:complexType>
<xs:attributeGroup name="G1"><xs:anyAttribute {a1} processContents="skip"/></xs:attributeGroup>
<xs:attributeGroup name="G2"><xs:anyAttribute {a2} processContents="skip"/></xs:attributeGroup>
<xs:complexType name="I"><xs:attributeGroup ref="t:G1"/><xs:attributeGroup ref="t:G2"/></xs:complexType>
<xs:element name="d" type="t:D"/>
<xs:element name="i" type="t:I"/>
''' + TAIL


def ext_only_schema(a1, a2):
    return HEAD + f'''
<xs:complexType name="B"><xs:anyAttribute {a1} processContents="skip"/></xs:complexType>
<xs:complexType name="D"><xs:complexContent><xs:extension base="t:B">
  <xs:anyAttribute {a2} processContents="skip"/></xs:extension></xs:complexContent></xs:complexType>
<xs:element name="d" type="t:D"/>
''' + TAIL


def int_only_schema(a1, a2):
    return HEAD + f'''
<xs:attributeGroup name="G1"><xs:anyAttribute {a1} processContents="skip"/></xs:attributeGroup>
<xs:attributeGroup name="G2"><xs:anyAttribute {a2} processContents="skip"/></xs:attributeGroup>
<xs:complexType name="I"><xs:attributeGroup ref="t:G1"/><xs:attributeGroup ref="t:G2"/></xs:complexType>
<xs:element name="i" type="t:I"/>
''' + TAIL


def three_groups_schema(a1, a2, a3):
    return HEAD + f'''
<xs:attributeGroup name="G1"><xs:anyAttribute {a1} processContents="skip"/></xs:attributeGroup>
<xs:attributeGroup name="G2"><xs:anyAttribute {a2} processContents="skip"/></xs:attributeGroup>
<xs:attributeGroup name="G3"><xs:anyAttribute {a3} processContents="skip"/></xs:attributeGroup>
<xs:complexType name="I"><xs:attributeGroup ref="t:G1"/><xs:attributeGroup ref="t:G2"/><xs:attributeGroup ref="t:G3"/></xs:complexType>
<xs:element name="i" type="t:I"/>
<xs:complexType name="O3"><xs:attributeGroup ref="t:G3"/></xs:complexType>
<xs:element name="o3" type="t:O3"/>
''' + TAIL


def shared_group_schema(a1, a2):
    """G1 is used alone by `o`, with an own wildcard by `n` (intersection) and by an extension of B (union)."""
    return HEAD + f'''
<xs:attributeGroup name="G1"><xs:anyAttribute {a1} processContents="skip"/></xs:attributeGroup>
<xs:complexType name="B"><xs:anyAttribute {a2} processContents="skip"/></xs:complexType>
<xs:complexType name="E"><xs:complexContent><xs:extension base="t:B"><xs:attributeGroup ref="t:G1"/></xs:extension></xs:complexContent></xs:complexType>
<xs:complexType name="N"><xs:attributeGroup ref="t:G1"/><xs:anyAttribute {a2} processContents="skip"/></xs:complexType>
<xs:complexType name="O"><xs:attributeGroup ref="t:G1"/></xs:complexType>
<xs:element name="e" type="t:E"/>
<xs:element name="n" type="t:N"/>
<xs:element name="o" type="t:O"/>
''' + TAIL


def res_attr_schema(a1, a2):
    return HEAD + f'''
<xs:complexType name="B"><xs:anyAttribute {a1} processContents="skip"/></xs:complexType>
<xs:complexType name="R"><xs:complexContent><xs:restriction base="t:B">
  <xs:anyAttribute {a2} processContents="skip"/></xs:restriction></xs:complexContent></xs:complexType>
<xs:element name="b" type="t:B"/>
<xs:element name="r" type="t:R"/>
''' + TAIL


def res_elem_schema(a1, a2):
    return HEAD + f'''
<xs:complexType name="B"><xs:sequence><xs:any {a1} processContents="skip"/></xs:sequence></xs:complexType>
<xs:complexType name="R"><xs:complexContent><xs:restriction base="t:B">
  <xs:sequence><xs:any {a2} processContents="skip"/></xs:sequence></xs:restriction></xs:complexContent></xs:complexType>
<xs:element name="b" type="t:B"/>
<xs:element name="r" type="t:R"/>
''' + TAIL


def overlap_schema(a1, a2):
    return HEAD + f'''
<xs:complexType name="O"><xs:sequence>
  <xs:any {a1} processContents="skip" minOccurs="0"/>
  <xs:any {a2} processContents="skip" minOccurs="0"/>
</xs:sequence></xs:complexType>
<xs:element name="o" type="t:O"/>
''' + TAIL


def open_schema(a1, a2):
    return HEAD + f'''
<xs:complexType name="B"><xs:openContent mode="interleave"><xs:any {a1} processContents="skip"/></xs:openContent>
  <xs:sequence><xs:element name="x" type="xs:string" minOccurs="0"/></xs:sequence></xs:complexType>
<xs:complexType name="D"><xs:complexContent><xs:extension base="t:B">
  <xs:openContent mode="interleave"><xs:any {a2} processContents="skip"/></xs:openContent>
  <xs:sequence><xs:element name="y" type="xs:string" minOccurs="0"/></xs:sequence>
</xs:extension></xs:complexContent></xs:complexType>
<xs:element name="d" type="t:D"/>
''' + TAIL


def attr_instance(tag, ns, ln):
    from xml.etree.ElementTree import Element
    return Element('{%s}%s' % (W.TNS, tag), {W.expanded(ns, ln): 'v'})


def child_instance(tag, ns, ln):
    from xml.etree.ElementTree import Element, SubElement
    e = Element('{%s}%s' % (W.TNS, tag))
    SubElement(e, W.expanded(ns, ln))
    return e


def admitted(schema, maker, tag):
    return frozenset((ns, ln) for ns, ln in W.UNIVERSE if schema.is_valid(maker(tag, ns, ln)))


def build(cls, text):
    """(schema, None) or (None, exception)."""
    import xmlschema
    try:
        return cls(text), None
    except xmlschema.XMLSchemaException as e:
        return None, e


def run_instance(spec, res):
    xmlschema = env.activate_repo()
    from xmlschema import XMLSchema10, XMLSchema11
    from xmlschema.validators.exceptions import XMLSchemaModelError
    version = spec['version']
    cls = XMLSchema10 if version == '1.0' else XMLSchema11
    cons = W.constraints(version)
    for i, j in spec['pairs']:
        run_instance_pair(res, xmlschema, cls, version, cons, i, j, XMLSchemaModelError)


def run_instance_pair(res, xmlschema, cls, version, cons, i, j, XMLSchemaModelError):
    c1, c2 = cons[i], cons[j]
    a1, a2 = W.render_attrs(c1), W.render_attrs(c2)
    d1, d2 = W.denote(c1), W.denote(c2)
    nt = is_nontrivial(c1, c2)

    def case(op):
        res.case(env.h8(('i', version, op, i, j)) if nt else None)
        res.count('instance:' + op)
        return {'kind': 'instance', 'op': op, 'version': version, 'i': i, 'j': j}

    def compare(op, lib, ref, cs):
        if lib != ref:
            res.violation(mech(op, 'instance', version, c1, c2, lib, ref), cs,
                          f'{show(c1)} {op} {show(c2)}: validation admits {sorted(lib)} reference {sorted(ref)}')
        else:
            res.count(f'instance:{op}:agree')

    # union by extension + intersection by attribute groups
    schema, err = build(cls, attr_schema(a1, a2))
    todo = []
    if schema is not None:
        todo = [('ext-attr-union', schema, 'd', d1 | d2), ('attrgroup-intersection', schema, 'i', d1 & d2)]
    else:
        for op, text, tag, ref in (('ext-attr-union', ext_only_schema(a1, a2), 'd', d1 | d2),
                                   ('attrgroup-intersection', int_only_schema(a1, a2), 'i', d1 & d2)):
            s2, e2 = build(cls, text)
            if s2 is None:
                cs = case(op)
                if version == '1.0' and not W.expressible_10(ref):
                    res.count(f'instance:{op}:refused_inexpressible')
                else:
                    res.count(f'instance:{op}:refused_expressible')
                    res.sample({'refused_expressible': [version, op, a1, a2, str(e2)[:100]]})
            else:
                todo.append((op, s2, tag, ref))
    for op, s, tag, ref in todo:
        cs = case(op)
        compare(op, admitted(s, attr_instance, tag), ref, cs)

    # three attribute groups: the intersection is taken over all of them; a third group used elsewhere is unchanged
    for k in sorted({(i * 7 + j * 3) % len(cons), (i + j + 1) % len(cons)}):
        c3 = cons[k]
        a3, d3 = W.render_attrs(c3), W.denote(c3)
        s3, e3 = build(cls, three_groups_schema(a1, a2, a3))
        cs = dict(case('attrgroup-intersection-3'), k=k)
        if s3 is None:
            res.count('instance:attrgroup-intersection-3:refused_' + ('inexpressible' if version == '1.0' and not (
                W.expressible_10(d1 & d2) and W.expressible_10(d1 & d2 & d3)) else 'expressible'))
            continue
        lib = admitted(s3, attr_instance, 'i')
        if lib != d1 & d2 & d3:
            res.violation(mech('attrgroup-intersection-3', 'instance', version, c1, c2, lib, d1 & d2 & d3), cs,
                          f'{show(c1)} & {show(c2)} & {show(c3)}: validation admits {sorted(lib)} reference {sorted(d1 & d2 & d3)}')
        elif admitted(s3, attr_instance, 'o3') != d3:
            res.violation(f'shared-group-wildcard-changed/{version}/third-group', cs,
                          f'{show(c3)} used by another type after a three-way intersection admits {sorted(admitted(s3, attr_instance, "o3"))}')
        else:
            res.count('instance:attrgroup-intersection-3:agree')
    # one group shared by three types: the group's own wildcard must stay what it declares
    sg, eg = build(cls, shared_group_schema(a1, a2))
    cs = case('shared-group')
    if sg is None:
        res.count('instance:shared-group:refused')
    else:
        for tag, ref, what in (('e', d1 | d2, 'ext-via-group-union'), ('n', d1 & d2, 'group+own-intersection'), ('o', d1, 'group-alone')):
            lib = admitted(sg, attr_instance, tag)
            if lib != ref:
                res.violation(f'shared-group-wildcard-changed/{version}/{what}' if tag == 'o' else
                              mech(what, 'instance', version, c1, c2, lib, ref), cs,
                              f'{what}: group {show(c1)}, other {show(c2)}: admits {sorted(lib)} reference {sorted(ref)}')
            else:
                res.count(f'instance:shared-group:{what}:agree')

    # restriction, attribute and element wildcards: c2 restricting c1
    for op, text, maker in (('attr-restriction', res_attr_schema(a1, a2), attr_instance),
                            ('elem-restriction', res_elem_schema(a1, a2), child_instance)):
        cs = case(op)
        s, e = build(cls, text)
        incl = d2 <= d1
        if s is None:
            res.count(f'instance:{op}:' + ('rejected_ok' if not incl else 'over_strict'))
            continue
        if not incl:
            res.violation(mech(op, 'instance', version, c2, c1, d2, d1), cs,
                          f'{a2} accepted as restriction of {a1} but admits {sorted(d2 - d1)}')
            continue
        res.count(f'instance:{op}:accepted_included')
        # instance-level confirmation: everything valid for r is valid for b
        vr, vb = admitted(s, maker, 'r'), admitted(s, maker, 'b')
        if not vr <= vb:
            res.violation(mech(op + '-instances', 'instance', version, c2, c1, vr, vb), cs,
                          f'instances valid for the restriction but not for the base: {sorted(vr - vb)}')

    # overlap of adjacent optional wildcards <=> UPA violation
    cs = case('overlap-upa')
    s, e = build(cls, overlap_schema(a1, a2))
    refov = bool(d1 & d2)
    if s is None and not isinstance(e, XMLSchemaModelError):
        res.count('instance:overlap-upa:other_build_error')
    elif (s is None) != refov:
        res.violation(f'overlap-upa/{version}/{c1[0]}{"-q" if c1[2] else ""}+{c2[0]}{"-q" if c2[2] else ""}/built={s is not None}',
                      cs, f'sequence(any {a1}?, any {a2}?) built={s is not None}, sets intersect on {sorted(d1 & d2)}')
    else:
        res.count('instance:overlap-upa:agree_' + ('clash' if refov else 'disjoint'))

    if version == '1.1':
        cs = case('ext-open-union')
        s, e = build(cls, open_schema(a1, a2))
        if s is None:
            res.count('instance:ext-open-union:refused')
            res.sample({'refused': ['ext-open-union', a1, a2, str(e)[:100]]})
        else:
            # children x / y of the target namespace are declared elements; exclude them
            compare('ext-open-union', admitted(s, child_instance, 'd'), d1 | d2, cs)
    if len(res.samples) < 2:
        res.sample({'pair': [version, a1, a2], 'union': sorted(d1 | d2), 'intersection': sorted(d1 & d2)})


def run_shard(spec, res):
    if spec['kind'] == 'component':
        run_component(spec, res)
    elif spec['kind'] == 'cross':
        run_cross(spec, res)
    else:
        run_instance(spec, res)


def finalize(res, tier):
    reasons = []
    for key in ('component:union:attr', 'component:intersection:attr', 'component:overlap', 'cross:overlap', 'cross:union:attr',
                'instance:ext-attr-union', 'instance:attrgroup-intersection', 'instance:attr-restriction',
                'instance:elem-restriction', 'instance:overlap-upa', 'instance:ext-open-union'):
        if not res.counters.get(key):
            reasons.append(f'deciding monitor {key} observed nothing')
    if not res.counters.get('instance:ext-attr-union:agree'):
        reasons.append('no union was ever compared on instances')
    return {'inconclusive': reasons}


def replay(case):
    from vk.result import Result
    xmlschema = env.activate_repo()
    res = Result()
    if case['kind'] == 'component':
        run_component({'version': case['version']}, res)
        hits = [v for v in res.violations if v['case'] == case]
    else:
        from xmlschema import XMLSchema10, XMLSchema11
        from xmlschema.validators.exceptions import XMLSchemaModelError
        cls = XMLSchema10 if case['version'] == '1.0' else XMLSchema11
        run_instance_pair(res, xmlschema, cls, case['version'], W.constraints(case['version']),
                          case['i'], case['j'], XMLSchemaModelError)
        hits = [v for v in res.violations if v['case']['op'] == case['op']]
    for v in hits:
        print(v['mechanism'], '::', v['detail'])
    return bool(hits)


LEVEL_TEXT = ('Exhaustive runtime exploration of a finite catalogue: every ordered pair of wildcard constraints '
              'over a 5-namespace x 2-name universe is pushed through the real union / intersection / restriction / '
              'overlap code (component calls and schema builds + instance validation) and compared with a set-algebra '
              'reference. Complete for the catalogue, silent about constraints outside it (##defined, ##definedSibling).')
LEVEL_NOTE = ('Trusted: the 40-line set reference (vk/ref/wildcardsets.py); FRESH/zz faithfully stand for unmentioned '
              'namespaces/names; CPython, ElementTree. Quick tier samples the 1.1 notQName instance-route pairs.')
TECHNIQUE = 'runtime monitoring: reference-model oracle over exhaustively enumerated executions of the real wildcard code'
