"""C17 - names survive prefix mapping: decoded names resolve back to the same QNames."""
from vk import env

PROPERTY = 'C17'
LEVEL = 'exploration'
RULE = ('generated documents (depth <= 4, up to 3 children per element) over 3 prefixes + the default namespace x 3 namespace '
        'URIs + no namespace, with seeded redeclaration, shadowing, several prefixes for one URI, default namespace set and '
        'unset (xmlns="") at random depths; a schema of lax wildcards admits every name; decoded with converters {default, '
        'JsonML, BadgerFish} x xmlns_processing {stacked, collapsed, root-only} x user namespace maps {none, '
        'colliding prefix, partial}; every element and attribute key is resolved with the xmlns entries the data reports on '
        'that node and its ancestors (plus the user map at the root) and compared with the expanded name of the source node; '
        'encode(decode(d)) must restore the expanded names; NamespaceMapper.map_qname / unmap_qname are also driven directly '
        'through seeded set_xmlns_context push/pop sequences; a case = (document, converter, mode, user map); distinct '
        'non-trivial = distinct documents that rebind a prefix already in scope or unset the default namespace')
RULE += (' ' + 'Data objects: to_objects() then DataElement.encode() must restore every expanded name for documents that use prefixed declarations only, declared or re-bound at any depth (documents with default-namespace declarations: listed finding).')
RULE += (' ' + 'The JsonML round trip is claimed for every document without a default-namespace declaration (nested and re-bound prefixes included).')
ASSUMPTIONS = [
    'a key left in {uri}local form is correct by definition',
    'xmlns_processing="none" keeps no namespace information and is excluded',
    'for dictionary converters children are matched as multisets of resolved expanded names (order is not kept by design)',
    'GData data does not distinguish attributes from simple child elements syntactically, so it is not walked; user-supplied namespace maps are explored and tallied, not claimed',
    'the encode round trip is claimed for documents whose declarations are all prefixed and on the root element; other documents hit the listed encoder findings',
    'the schema only holds lax wildcards, so validity never depends on the names',
]
ANCHORS = {
    'xmlschema/namespaces.py': [(185, 344)],
    'xmlschema/resources/xml_loader.py': [(285, 329), (363, 386)],
    'xmlschema/converters/base.py': [(307, 380)],
}
SHARD_TIMEOUT = {'quick': 600, 'thorough': 3600}
LEVEL_TEXT = ('Runtime monitoring with an independent resolver: generated documents with hostile prefix layouts are decoded by '
              'the real converters; an own implementation of XML namespace scoping resolves every reported key with the '
              'declarations reported in the data and compares it with the parser\'s expanded names, in a parallel walk of '
              'source tree and decoded data; the round trip through encode() is checked the same way.')
LEVEL_NOTE = ('Trusted: the document generator\'s own scoped rendering (checked against ElementTree\'s parse of the rendered text '
              'for every document), the per-converter data walkers.')
TECHNIQUE = 'runtime monitoring: reference-model oracle (independent namespace-scope resolver) over generated prefix layouts'

XS = 'http://www.w3.org/2001/XMLSchema'
U = ('urn:n:0', 'urn:n:1', 'urn:n:2')
PREFIXES = ('p', 'q', 'w')
XSD = f'''<xs:schema xmlns:xs="{XS}" targetNamespace="{U[0]}" xmlns:t="{U[0]}" elementFormDefault="qualified">
<xs:complexType name="Any"><xs:sequence><xs:any processContents="lax" minOccurs="0" maxOccurs="unbounded"/></xs:sequence>
<xs:anyAttribute processContents="lax"/></xs:complexType>
<xs:element name="r" type="t:Any"/><xs:element name="e" type="t:Any"/>
<xs:element name="a" type="t:Any"/><xs:element name="b" type="t:Any"/><xs:element name="x" type="t:Any"/></xs:schema>'''
MODES = ('stacked', 'collapsed', 'root-only')


def plan(tier, seed):
    n = 60 if tier == 'quick' else 900
    shards = 16 if tier == 'quick' else 40
    specs = [{'kind': 'docs', 'docs': n, 'dshard': s} for s in range(shards)]
    specs.append({'kind': 'mapper', 'sequences': 300 if tier == 'quick' else 6000})
    return specs


# ---------------------------------------------------------------------------------------------
def gen_doc(rng):
    """Returns (text, tree) where tree nodes are dicts with expanded names; flags['rebind'] etc."""
    flags = {'rebind': False, 'unset_default': False, 'multi_prefix': False}

    def node(depth, scope, is_root):
        decls = []
        new = dict(scope)
        for pf in PREFIXES + ('',):
            if rng.random() < (0.5 if is_root else 0.22):
                uri = rng.choice(U + (('',) if pf == '' and scope.get('') else ()))
                if pf == '' and uri == '' and not scope.get(''):
                    continue
                if pf in scope and scope[pf] != uri:
                    flags['rebind'] = True
                    if pf == '' and uri == '':
                        flags['unset_default'] = True
                decls.append((pf, uri))
                new[pf] = uri
        ns = U[0] if is_root else rng.choice(U + ('',))
        local = 'r' if is_root else rng.choice(('a', 'b', 'e', 'x'))

        def prefix_for(n, attribute=False):
            cands = [p for p, u in new.items() if u == n and (p or not attribute)]
            if n == '':
                if attribute:
                    return ''
                if not new.get(''):
                    return ''
                decls[:] = [d for d in decls if d[0] != '']
                decls.append(('', ''))
                new[''] = ''
                flags['unset_default'] = True
                return ''
            if len(cands) > 1:
                flags['multi_prefix'] = True
            if cands:
                return rng.choice(sorted(cands))
            pf = rng.choice(PREFIXES if attribute else PREFIXES + ('',))
            if pf in new and new[pf] != n:
                flags['rebind'] = True
            # a prefix declared twice on one element is not well-formed: replace the earlier declaration
            decls[:] = [d for d in decls if d[0] != pf]
            decls.append((pf, n))
            new[pf] = n
            return pf

        epf = prefix_for(ns)
        attrs = []
        for _ in range(rng.choice((0, 0, 1, 2))):
            ans = rng.choice(U + ('', ''))
            al = rng.choice(('k', 'm', 'at'))
            if any(a[0] == ans and a[1] == al for a in attrs):
                continue
            attrs.append((ans, al, 'v'))
        rendered_attrs = []
        for ans, al, av in attrs:
            apf = prefix_for(ans, attribute=True)
            rendered_attrs.append((apf, al, av))
        # the element prefix may have been rebound by an attribute's need: re-pick if necessary
        if new.get(epf, '') != ns:
            cands = [p for p, u in new.items() if u == ns]
            if not cands:
                return node(depth, scope, is_root)   # retry with other random choices
            epf = sorted(cands)[0]
        for i, (apf, al, av) in enumerate(rendered_attrs):
            if attrs[i][0] and new.get(apf) != attrs[i][0]:
                return node(depth, scope, is_root)
        kids = []
        if depth < 4:
            for _ in range(rng.choice((0, 1, 2, 3)) if depth else rng.choice((1, 2, 3))):
                kids.append(node(depth + 1, new, False))
        qn = f'{epf}:{local}' if epf else local
        s = '<' + qn
        for pf, uri in decls:
            s += f' xmlns:{pf}="{uri}"' if pf else f' xmlns="{uri}"'
        for apf, al, av in rendered_attrs:
            s += f' {apf}:{al}="{av}"' if apf else f' {al}="{av}"'
        if kids:
            s += '>' + ''.join(k['text'] for k in kids) + f'</{qn}>'
        else:
            s += '/>'
        return {'tag': '{%s}%s' % (ns, local) if ns else local,
                'attrs': sorted(('{%s}%s' % (a, l) if a else l) for a, l, _ in attrs),
                'children': kids, 'text': s, 'decls': bool(decls)}

    tree = node(0, {}, True)
    return tree['text'], tree, flags


def etree_shape(elem):
    return {'tag': elem.tag, 'attrs': sorted(elem.attrib), 'children': [etree_shape(c) for c in elem]}


def strip(tree):
    return {'tag': tree['tag'], 'attrs': tree['attrs'], 'children': [strip(c) for c in tree['children']]}


# ---------------------------------------------------------------------------------------------
# walkers: decoded data -> generic tree {'name', 'xmlns': {prefix: uri}, 'attrs': [names], 'children': [...]}
def walk_default(name, value):
    node = {'name': name, 'xmlns': {}, 'attrs': [], 'children': []}
    if isinstance(value, dict):
        for k, v in value.items():
            if k == '@xmlns':
                node['xmlns'][''] = v
            elif k.startswith('@xmlns:'):
                node['xmlns'][k[7:]] = v
            elif k.startswith('@'):
                node['attrs'].append(k[1:])
            elif k.startswith('$') or k.startswith('#'):
                continue
            else:
                for item in (v if isinstance(v, list) else [v]):
                    node['children'].append(walk_default(k, item))
    return node


def walk_jsonml(value):
    name = value[0]
    node = {'name': name, 'xmlns': {}, 'attrs': [], 'children': []}
    rest = value[1:]
    if rest and isinstance(rest[0], dict):
        for k, v in rest[0].items():
            if k == 'xmlns':
                node['xmlns'][''] = v
            elif k.startswith('xmlns:'):
                node['xmlns'][k[6:]] = v
            else:
                node['attrs'].append(k)
        rest = rest[1:]
    for item in rest:
        if isinstance(item, list):
            node['children'].append(walk_jsonml(item))
    return node


def walk_badgerfish(name, value):
    node = {'name': name, 'xmlns': {}, 'attrs': [], 'children': []}
    if isinstance(value, dict):
        for k, v in value.items():
            if k == '@xmlns':
                for pf, uri in v.items():
                    node['xmlns']['' if pf == '$' else pf] = uri
            elif k.startswith('@'):
                node['attrs'].append(k[1:])
            elif k.startswith('$'):
                continue
            else:
                for item in (v if isinstance(v, list) else [v]):
                    node['children'].append(walk_badgerfish(k, item))
    return node


def walk_gdata(name, value):
    node = {'name': name.replace('$', ':', 1), 'xmlns': {}, 'attrs': [], 'children': []}
    if isinstance(value, dict):
        for k, v in value.items():
            if k == 'xmlns':
                node['xmlns'][''] = v
            elif k.startswith('xmlns$'):
                node['xmlns'][k[6:]] = v
            elif k == '$t':
                continue
            elif isinstance(v, (dict, list)) or v is None:
                for item in (v if isinstance(v, list) else [v]):
                    node['children'].append(walk_gdata(k, item))
            else:
                node['attrs'].append(k.replace('$', ':', 1))
    return node


def resolve(name, scope, attribute):
    if name.startswith('{'):
        return name
    if ':' in name:
        pf, local = name.split(':', 1)
        if pf not in scope:
            raise KeyError(pf)
        uri = scope[pf]
        return '{%s}%s' % (uri, local) if uri else local
    if attribute:
        return name
    d = scope.get('')
    return '{%s}%s' % (d, name) if d else name


def local_of(name):
    if name.startswith('{'):
        return name.split('}')[1]
    return name.split(':')[-1]


def ns_of(expanded):
    return expanded[1:].split('}')[0] if expanded.startswith('{') else ''


def diagnose(key, want, scope, attribute):
    """Why does `key` (as reported in the data) not denote the expanded name `want`?"""
    what = 'attribute' if attribute else 'element'
    if ':' in key and not key.startswith('{'):
        pf = key.split(':', 1)[0]
        if pf not in scope:
            return f'{what}-prefix-without-reported-declaration'
        return f'{what}-prefix-bound-to-other-namespace' if (attribute or ns_of(want)) else \
            'unprefixed-element-key-under-default-namespace-for-no-namespace-element'
    if attribute:
        return 'unprefixed-attribute-key-for-namespaced-attribute' if ns_of(want) else 'attribute-other'
    if ns_of(want) == '':
        return 'unprefixed-element-key-under-default-namespace-for-no-namespace-element'
    return 'unprefixed-element-key-for-element-of-other-namespace'


def compare(src, data, scope, ordered, path, problems):
    """Parallel walk. scope: declarations reported so far by the data (prefix -> uri)."""
    scope = dict(scope)
    scope.update(data['xmlns'])
    try:
        got = resolve(data['name'], scope, False)
    except KeyError:
        got = None
    if got != src['tag']:
        problems.append((diagnose(data['name'], src['tag'], scope, False), path,
                         f'key {data["name"]!r} resolves to {got} but the node is {src["tag"]} (scope {scope})'))
        return
    want_attrs = list(src['attrs'])
    if len(data['attrs']) != len(want_attrs):
        problems.append(('attribute-keys-collide-or-missing', path, f'{data["attrs"]} vs node attributes {want_attrs}'))
        return
    for a in data['attrs']:
        try:
            ga = resolve(a, scope, True)
        except KeyError:
            ga = None
        if ga in want_attrs:
            want_attrs.remove(ga)
        else:
            cands = [w for w in want_attrs if local_of(w) == local_of(a)] or want_attrs
            problems.append((diagnose(a, cands[0], scope, True), path,
                             f'attribute key {a!r} resolves to {ga} but the node has {src["attrs"]} (scope {scope})'))
            return
    if len(data['children']) != len(src['children']):
        problems.append(('children-count-differs', path, f'{len(data["children"])} vs {len(src["children"])}'))
        return
    if ordered:
        for i, (sc, dc) in enumerate(zip(src['children'], data['children'])):
            compare(sc, dc, scope, ordered, path + (i,), problems)
            if problems:
                return
        return
    # dictionary converters: siblings of one expanded name may be spread over several keys, so their pairing
    # with the source children is not determined by the data; accept any pairing that makes the subtrees agree
    import itertools
    first_problems = None
    for perm in itertools.permutations(range(len(src['children']))):
        trial = []
        for i, j in enumerate(perm):
            compare(src['children'][i], data['children'][j], scope, ordered, path + (i,), trial)
            if trial:
                break
        if not trial:
            return
        if first_problems is None or len(perm) == 1:
            first_problems = trial
        # prefer the diagnosis of the name-wise closest pairing
        if all(local_of(data['children'][j]['name']) == local_of(src['children'][i]['tag']) for i, j in enumerate(perm)):
            first_problems = trial
    problems.extend(first_problems or [])


def run_docs(spec, res):
    xmlschema = env.activate_repo()
    import xml.etree.ElementTree as ET
    from xmlschema import converters as C
    schema = xmlschema.XMLSchema10(XSD)
    rng = env.rng_for(PROPERTY, spec['tier'], spec['seed'], 'docs', spec['dshard'])
    convs = {
        'jsonml': (C.JsonMLConverter, lambda d, root: walk_jsonml(d), True),
        'default': (None, lambda d, root: walk_default(root, d), False),
        'badgerfish': (C.BadgerFishConverter, lambda d, root: walk_badgerfish(*next(iter(d.items()))), False),
    }
    for n in range(spec['docs']):
        text, tree, flags = gen_doc(rng)
        src = strip(tree)
        # the generator's own view must equal the parser's view (guards the harness)
        try:
            parsed = etree_shape(ET.fromstring(text))
        except ET.ParseError as e:
            res.inconclusive_case('generator produced a not well-formed document', [text[:300], str(e)])
            continue
        if parsed != src:
            res.inconclusive_case('generator view differs from parser view', text[:400])
            continue
        nt = env.h8(text) if (flags['rebind'] or flags['unset_default']) else None
        if not schema.is_valid(text):
            res.inconclusive_case('document not valid for the lax schema', text[:300])
            continue
        jsonml_kind = {}
        jsonml_kind_lx = {}
        for cname, (conv, walker, ordered) in convs.items():
            for mode in MODES:
                for umap_name, umap in (('none', None), ('colliding', {'p': U[2], 'z': U[1]}), ('partial', {'': U[1]})):
                    if umap is not None and rng.random() < 0.6:
                        continue
                    case = {'doc': text, 'converter': cname, 'mode': mode, 'namespaces': umap}
                    res.case(nt)
                    res.count(f'decode:{cname}:{mode}')
                    kwargs = {'xmlns_processing': mode}
                    if conv is not None:
                        kwargs['converter'] = conv
                    if umap is not None:
                        kwargs['namespaces'] = umap
                    try:
                        data = schema.decode(text, **kwargs)
                    except xmlschema.XMLSchemaException as e:
                        res.violation(f'decode-raised:{cname}:{mode}:{type(e).__name__}', case, str(e)[:200])
                        continue
                    # the root key of the default converter is not part of the data: take it from the source text
                    root_name = text[1:].split()[0].split('>')[0].split('/')[0]
                    try:
                        gtree = walker(data, root_name)
                    except (TypeError, AttributeError, StopIteration, IndexError, KeyError) as e:
                        res.violation(f'unexpected-data-shape:{cname}', case, f'{e!r} {str(data)[:200]}')
                        continue
                    problems = []
                    scope0 = dict(umap or {})
                    if cname == 'default':
                        # the root element's name is not in the data; resolve the source's own root name with the data's scope
                        gtree['name'] = root_name if mode == 'stacked' else gtree['name']
                        if mode != 'stacked':
                            gtree['name'] = '{%s}r' % U[0]
                    compare(src, gtree, scope0, ordered, (), problems)
                    if umap is not None:
                        # user-supplied maps: explored and tallied, not claimed (the interplay of a user map with the
                        # document's own declarations multiplies the listed defects without adding a mechanism)
                        res.count('explored_not_claimed:usermap:' + (problems[0][0] if problems else 'agree'))
                        continue
                    if cname == 'jsonml':
                        jsonml_kind[mode] = problems[0][0] if problems else None
                    elif problems:
                        # dictionary converters do not determine the pairing of same-named siblings, so their
                        # mismatches are attributed to the mechanism the ordered, lossless JsonML data shows
                        # for the same document and mode; a mismatch that JsonML does not show is their own
                        if jsonml_kind.get(mode):
                            problems = [(jsonml_kind[mode], problems[0][1], f'({cname}) ' + problems[0][2])]
                        else:
                            problems = [(f'dict-converter-only-mismatch', problems[0][1], f'({cname}) ' + problems[0][2])]
                    if problems:
                        kind, path, detail = problems[0]
                        res.violation(f'{kind}:{"stacked" if mode == "stacked" else "collapsed-or-root-only"}', case,
                                      f'{cname}/{mode}/{umap_name} at {path}: {detail}')
                        continue
                    res.count('names:agree')
                    if umap is None and cname in ('jsonml', 'default'):
                        # the same document given as an lxml tree (namespace declarations are read from lxml's nsmap
                        # instead of parser events): same data
                        from lxml import etree as lxml_etree
                        res.count('lxml_source:compared')
                        try:
                            data_lx = schema.decode(lxml_etree.fromstring(text.encode('utf-8')), **kwargs)
                        except xmlschema.XMLSchemaException as e:
                            res.violation(f'lxml-source:decode-raised:{type(e).__name__}', case, str(e)[:200])
                        else:
                            # (declarations that re-declare a binding already in scope are not visible in an lxml tree, so
                            # the xmlns entries may differ: the names must resolve to the same nodes all the same)
                            problems_lx = []
                            try:
                                gtree_lx = walker(data_lx, root_name)
                                if cname == 'default':
                                    gtree_lx['name'] = gtree['name']
                                compare(src, gtree_lx, dict(scope0), ordered, (), problems_lx)
                            except (TypeError, AttributeError, StopIteration, IndexError, KeyError) as e:
                                problems_lx = [('unexpected-data-shape', (), repr(e))]
                            if cname == 'jsonml':
                                jsonml_kind_lx[mode] = problems_lx[0][0] if problems_lx else None
                            elif problems_lx:
                                # (dictionary data: attributed to what the ordered JsonML data of the lxml source shows)
                                problems_lx = [(jsonml_kind_lx.get(mode) or 'dict-converter-only-mismatch', problems_lx[0][1],
                                                f'({cname}) ' + problems_lx[0][2])]
                            if problems_lx:
                                # same mechanism names as for text sources: without the redundant re-declarations the listed
                                # default-namespace findings show up on more nodes; anything else is new
                                res.count('lxml_source:differs_from_text_source')
                                res.violation(f'{problems_lx[0][0]}:{"stacked" if mode == "stacked" else "collapsed-or-root-only"}',
                                              dict(case, source='lxml'),
                                              f'{cname}/{mode} lxml source at {problems_lx[0][1]}: {problems_lx[0][2]} (the text source resolves correctly)')
                            else:
                                res.count('lxml_source:agree')
                    # round trip: encode restores the expanded names (JsonML keeps order and every name)
                    if cname == 'jsonml' and umap is None:
                        res.count('roundtrip:runs')
                        try:
                            out = schema.encode(data, path='{%s}r' % U[0], validation='lax', converter=conv, xmlns_processing=mode)
                        except xmlschema.XMLSchemaException as e:
                            res.violation(f'roundtrip-encode-raised:{type(e).__name__}', case, str(e)[:200])
                            continue
                        elem = out[0] if isinstance(out, tuple) else out
                        back = etree_shape(elem) if elem is not None else None
                        if back != src:
                            why = tree_diff(src, back, tree)
                            nested = has_nested_or_default_decls(text)
                            res.count('roundtrip:differs:' + why)
                            # (listed for documents that declare a default namespace somewhere; documents that only use prefixes,
                            # declared or re-bound at any depth, must come back exactly - as for the data objects below)
                            res.violation('roundtrip-jsonml:' + ('document-with-nested-or-default-namespace-declarations' if 'xmlns="' in text
                                                                 else ('nested' if nested else 'root-only') + '-prefixed-declarations:' + why), case,
                                          f'jsonml/{mode}: encode(decode(d)) differs: {why}; encoded {str(back)[:160]}')
                        else:
                            res.count('roundtrip:agree')
        # data objects: tags are kept expanded, attribute names are mapped with the namespace context of their own element
        for mode in MODES:
            case = {'doc': text, 'converter': 'dataelement', 'mode': mode, 'namespaces': None}
            res.case(nt)
            res.count('roundtrip_dataelement:runs')
            try:
                obj = schema.to_objects(text, xmlns_processing=mode)
                out = obj.encode(validation='lax', xmlns_processing=mode)
            except xmlschema.XMLSchemaException as e:
                res.violation(f'roundtrip-dataelement-raised:{type(e).__name__}', case, str(e)[:200])
                continue
            elem = out[0] if isinstance(out, tuple) else out
            back = etree_shape(elem) if elem is not None else None
            if back != src:
                why = tree_diff(src, back, tree)
                nested = has_nested_or_default_decls(text)
                res.count('roundtrip_dataelement:differs:' + why)
                # (an unprefixed attribute under a default namespace is encoded into that namespace, and an element of no
                # namespace under a default namespace is not matched: both listed; documents that only use prefixes,
                # declared or re-bound anywhere, must come back exactly)
                res.violation('roundtrip-dataelement:' + ('document-with-default-namespace-declarations' if 'xmlns="' in text
                                                          else 'prefixed-declarations-only:' + why), case,
                              f'dataelement/{mode}: encode(to_objects(d)) differs: {why}; encoded {str(back)[:160]}')
            else:
                res.count('roundtrip_dataelement:agree')
        if len(res.samples) < 2:
            res.sample({'doc': text[:400], 'flags': flags})
        for k, v in flags.items():
            if v:
                res.count('docs:' + k)


def tree_diff(src, back, full):
    """Mechanism class of the first difference between the source tree and the re-encoded tree.
    `full` is the generator's tree (same shape as src) that knows which elements declare namespaces."""
    if back is None:
        return 'nothing-encoded'

    def own(node_full):
        return 'element-with-own-xmlns-declarations' if node_full['decls'] else None

    if src['tag'] != back['tag']:
        if ns_of(src['tag']) == '':
            return 'no-namespace-element'
        return own(full) or 'element-name-changed'
    if src['attrs'] != back['attrs']:
        sa, ba = set(src['attrs']), set(back['attrs'])
        lost, gained = sa - ba, ba - sa
        if any(ns_of(a) == '' for a in lost) and any(ns_of(b) and local_of(b) in {local_of(a) for a in lost} for b in gained):
            return 'unprefixed-attribute-gains-default-namespace'
        return own(full) or 'attribute-names-changed'
    for i, a in enumerate(src['children']):
        if i >= len(back['children']) or back['children'][i]['tag'] != a['tag']:
            # the i-th source child was dropped or renamed
            if ns_of(a['tag']) == '':
                return 'no-namespace-element'
            return own(full['children'][i]) or 'child-lost-or-renamed'
        if back['children'][i] != a:
            return tree_diff(a, back['children'][i], full['children'][i])
    if len(back['children']) != len(src['children']):
        return 'children-added'
    return 'equal'


def has_nested_or_default_decls(text):
    """Does any element other than the root declare a namespace, or is a default namespace declared at all?"""
    root_end = text.index('>')
    return 'xmlns' in text[root_end:] or 'xmlns=' in text[:root_end]


def canon_unordered(t):
    return (t['tag'], tuple(t['attrs']), tuple(sorted(canon_unordered(c) for c in t['children'])))


# ---------------------------------------------------------------------------------------------
def run_mapper(spec, res):
    """NamespaceMapper driven directly: push/pop xmlns contexts; map/unmap against an own scope stack."""
    xmlschema = env.activate_repo()
    from xmlschema.namespaces import NamespaceMapper
    rng = env.rng_for(PROPERTY, spec['tier'], spec['seed'], 'mapper')

    class Obj:
        def __init__(self, xmlns):
            self.xmlns = xmlns

    for s in range(spec['sequences']):
        mapper = NamespaceMapper(xmlns_processing='stacked', source=None) if False else None
        try:
            mapper = NamespaceMapper(namespaces=None, xmlns_processing='stacked')
        except TypeError:
            res.inconclusive_case('NamespaceMapper signature changed')
            return
        mapper._xmlns_getter = lambda o: o.xmlns     # the documented hook point for sources is get_xmlns_from_data
        stack = [{}]
        seq = []
        level = 0
        objs = [None]
        for step in range(rng.randint(3, 14)):
            if level and rng.random() < 0.35:
                level -= 1
                stack.pop()
                objs.pop()
                # popping happens when the next sibling/ancestor context is set
                seq.append(('pop',))
                continue
            decl = []
            for pf in PREFIXES + ('',):
                if rng.random() < 0.3:
                    decl.append((pf, rng.choice(U)))
            o = Obj(decl or None)
            scope = dict(stack[-1])
            scope.update(decl)
            stack.append(scope)
            objs.append(o)
            mapper.set_xmlns_context(o, level)
            seq.append(('push', level, decl))
            level += 1
            # check: every expanded name maps to a prefixed name that resolves back to itself in this scope
            for uri in U:
                q = '{%s}n' % uri
                res.evaluations += 1
                m = mapper.map_qname(q)
                if m.startswith('{'):
                    res.count('mapper:left_expanded')
                    continue
                try:
                    back = resolve(m, scope, False)
                except KeyError:
                    back = None
                if back != q:
                    res.violation('mapper-map_qname-not-invertible-in-scope', {'sequence': seq[:], 'qname': q},
                                  f'after {seq[-3:]}: map_qname({q}) = {m!r} which resolves to {back} in scope {scope}')
                    break
                u = mapper.unmap_qname(m)
                if u != q:
                    res.violation('mapper-unmap_qname-differs', {'sequence': seq[:], 'qname': q},
                                  f'unmap_qname(map_qname({q})) = {u}')
                    break
                res.count('mapper:agree')
            else:
                continue
            break
        if s == 0:
            res.sample({'mapper_sequence': [list(x) if isinstance(x, tuple) else x for x in seq[:6]]})
        res.nontrivial.add(env.h8(str(seq)))


def run_shard(spec, res):
    {'docs': run_docs, 'mapper': run_mapper}[spec['kind']](spec, res)


def finalize(res, tier):
    c = res.counters
    reasons = []
    if c.get('names:agree', 0) + sum(v for k, v in res.viol_counts.items()) < 100:
        reasons.append('fewer than 100 decoded documents compared')
    if not c.get('docs:rebind'):
        reasons.append('no document rebinding a prefix was generated')
    if not c.get('roundtrip:runs'):
        reasons.append('no encode round trip was run')
    return {'inconclusive': reasons}


def replay(case):
    xmlschema = env.activate_repo()
    from vk.result import Result
    res = Result()
    if 'sequence' in case:
        run_mapper({'tier': 'quick', 'seed': 0, 'sequences': 2000}, res)
    else:
        print(case['doc'])
        schema = xmlschema.XMLSchema10(XSD)
        from xmlschema import converters as C
        conv = {'default': None, 'jsonml': C.JsonMLConverter, 'badgerfish': C.BadgerFishConverter, 'gdata': C.GDataConverter}[case['converter']]
        kw = {'xmlns_processing': case['mode']}
        if conv:
            kw['converter'] = conv
        if case.get('namespaces'):
            kw['namespaces'] = case['namespaces']
        print(schema.decode(case['doc'], **kw))
        return True
    for v in res.violations:
        print(v['mechanism'], v['detail'][:300])
    return bool(res.violations)
