"""C18 - one schema object can be built and used from many threads with unchanged results."""
import sys
import threading
import time

from vk import env
from vk.gen import docs as D
from vk.paths import clean_reason

PROPERTY = 'C18'
LEVEL = 'exploration'
RULE = ('per schema (eight families x XSD 1.0/1.1) a pool of valid / faulted documents; 2-4 threads share one schema object in '
        'six scenarios {race to build() a build=False schema then validate, threads that arrive while the build is in progress '
        '(released at drawn points of the builder, with and without their own build() call), validators only, mixed decode / encode / '
        'iter_errors / simple-type scratch-context calls, two threads on one shared lazy resource}; interleavings are produced '
        'by (a) a seeded yield injector: a sys.monitoring PY_START callback on library code objects that releases the GIL '
        '(sleep(0)) with probability p in {0.002, 0.02, 0.2}, and (b) free-running stress with a 1 microsecond switch '
        'interval; the switch trace (sequence of thread ids at callback events) is recorded; every thread result is compared '
        'with the sequential baseline, the build body must run exactly once (PY_START counter on GlobalMaps.load) and the '
        'raced globals must equal a sequential build; a case = one (scenario, schedule) run; distinct non-trivial = distinct '
        'switch traces with at least one switch inside a critical window (build body, scratch context, memo cache)')
ASSUMPTIONS = [
    'CPython with the GIL: interleavings are explored at bytecode-boundary hand-overs forced at function-call granularity inside the library plus free-running preemption',
    'documents do not trigger dynamic loading of additional schemas',
    'a thread using a lazy resource that another thread is iterating must get the baseline result or the documented XMLResourceError',
    'results are compared after all threads joined; a thread still alive after the join timeout makes the schedule inconclusive',
]
ANCHORS = {
    'xmlschema/validators/xsd_globals.py': [(537, 578)],
    'xmlschema/caching.py': [(31, 87)],
    'xmlschema/validators/schemas.py': [(909, 915)],
    'xmlschema/validators/simple_types.py': [(465, 483)],
    'xmlschema/resources/xml_loader.py': [(233, 283)],
}
SHARD_TIMEOUT = {'quick': 900, 'thorough': 5400}
LEVEL_TEXT = ('Runtime monitoring under schedule exploration: real threads drive one shared schema object while a seeded yield '
              'injector (sys.monitoring PY_START on library functions) and a minimal switch interval force hand-overs inside '
              'the build body, the shared scratch context and the memo cache; per-thread results, exceptions, the build-body '
              'execution count and the resulting globals are checked against a sequential run.')
LEVEL_NOTE = ('Trusted: the sequential baseline, the probes (PY_START counters), CPython thread switching. Held on the schedules '
              'observed (counted by distinct switch traces and critical-window hits), not on all interleavings.')
TECHNIQUE = 'runtime monitoring: schedule exploration by seeded yield injection (sys.monitoring) + stress, differential oracle vs sequential run, build-once probe'

ALL_FAMILIES = dict(D.FAMILIES, **D.EXTRA_FAMILIES)
TOOL = 1
LATE = ('late_joiner', 'late_user')


def plan(tier, seed):
    specs = []
    nsched = 24 if tier == 'quick' else 140
    for fam in ALL_FAMILIES:
        for v in ('1.0', '1.1'):
            for part in range(2 if tier == 'quick' else 4):
                specs.append({'kind': 'threads', 'family': fam, 'version': v, 'schedules': nsched, 'part': part, 'no_cov': True})
    specs.append({'kind': 'cov'})
    return specs


# ---------------------------------------------------------------------------------------------
class YieldInjector:
    """PY_START callback on library code: with probability p release the GIL; record the switch trace."""

    def __init__(self, repo_root):
        self.prefix = repo_root + '/xmlschema/'
        self.p = 0.0
        self.rng = None
        self.trace = []
        self.last = None
        self.switches = 0
        self.window_hits = {'build': 0, 'scratch': 0, 'cache': 0}
        self.in_build = 0
        self.lock = threading.Lock()
        self.active = False
        self.window_codes = {}
        self.builder_tid = None
        self.build_events = 0
        self.phase_callers = ()
        self.reset_phases()
        mon = sys.monitoring
        mon.use_tool_id(TOOL, 'vk-yield')
        mon.register_callback(TOOL, mon.events.PY_START, self._on_start)

    def reset_phases(self):
        self.phase = 0
        self.phase_event0 = 0
        self.phases = []        # [name, events] per phase: a phase starts at each call made directly by the build bodies
        self.parks = {}         # (phase, offset) -> (release Event for the joiner, done Event of the joiner)
        self.build_events = 0

    def mark_windows(self, xmlschema):
        from xmlschema.validators.builders import GlobalMaps
        from xmlschema.validators.xsd_globals import XsdGlobals
        from xmlschema.validators.simple_types import XsdSimpleType
        from xmlschema.caching import SchemaCache
        self.phase_callers = (XsdGlobals.build.__code__, GlobalMaps.build.__code__)
        self.window_codes = {
            GlobalMaps.load.__code__: 'build', GlobalMaps.build.__code__: 'build',
            XsdGlobals.check.__code__: 'build',
            XsdSimpleType.text_decode.__code__: 'scratch', XsdSimpleType.text_is_valid.__code__: 'scratch',
            SchemaCache.__call__.__code__: 'cache',
        }

    def start(self, p, rng):
        self.p, self.rng = p, rng
        self.trace, self.last, self.switches = [], None, 0
        self.recent_window = {}
        self.scratch_budget = {}
        self.active = True
        sys.monitoring.set_events(TOOL, sys.monitoring.events.PY_START)

    def stop(self):
        self.active = False
        sys.monitoring.set_events(TOOL, 0)

    def _on_start(self, code, offset):
        if not self.active or not code.co_filename.startswith(self.prefix):
            return
        tid = threading.get_ident()
        w = self.window_codes.get(code)
        if tid == self.builder_tid:
            # late-joiner schedules: the builder's progress is the clock the joiners wait on, and the builder hands
            # the GIL over at every call so that a released joiner runs while the build is still in progress
            self.build_events += 1
            back = sys._getframe(1).f_back
            if back is not None and back.f_code in self.phase_callers:
                self.phase += 1
                self.phase_event0 = self.build_events
                self.phases.append([code.co_qualname, 0])
            if self.phases:
                self.phases[-1][1] += 1
            park = self.parks.get((self.phase, self.build_events - self.phase_event0))
            if park:
                # release the joiner that waits for this point and stay here until it is done; a joiner that blocks on
                # the build lock cannot finish, hence the timeout
                park[0].set()
                park[1].wait(0.05)
            time.sleep(0)
        with self.lock:
            if w:
                self.recent_window[tid] = w
            if w == 'scratch':
                # the next calls of this thread run on the per-schema scratch context, shared by all threads and not
                # locked: hand over there with a high probability, whatever the schedule's base rate is
                self.scratch_budget[tid] = 14
            if self.last is not None and self.last != tid:
                self.switches += 1
                if len(self.trace) < 400:
                    self.trace.append(tid)
                # a hand-over while another thread is inside a critical window
                for other, ww in self.recent_window.items():
                    if other != tid and ww:
                        self.window_hits[ww] += 1
                        break
            self.last = tid
            do_yield = self.rng.random() < self.p
            left = self.scratch_budget.get(tid, 0)
            if left:
                self.scratch_budget[tid] = left - 1
                do_yield = do_yield or self.rng.random() < 0.5
        if do_yield:
            time.sleep(0)


class CountingLock:
    """Wraps the library's own lock object: same mutual exclusion, counts contended acquisitions."""

    def __init__(self, real):
        self.real = real
        self.contended = 0
        self.acquired = 0

    def acquire(self, blocking=True, timeout=-1):
        if self.real.acquire(False):
            self.acquired += 1
            return True
        self.contended += 1
        if not blocking:
            return False
        ok = self.real.acquire(True, timeout)
        if ok:
            self.acquired += 1
        return ok

    def release(self):
        self.real.release()

    def locked(self):
        return self.real.locked()

    __enter__ = acquire

    def __exit__(self, *a):
        self.release()


def obj_sig(o):
    if o is None:
        return None
    kids = list(o)
    return (o.tag, tuple(sorted((k, repr(v)) for k, v in o.attrib.items())), repr(o.value) if not kids else None,
            tuple(obj_sig(c) for c in kids))


def elem_sig(e):
    return (e.tag, tuple(sorted(e.attrib.items())), e.text, e.tail, tuple(elem_sig(c) for c in e))


OPS = ('is_valid', 'iter_errors', 'decode_lax', 'decode_strict', 'to_objects', 'encode', 'simple_scratch', 'lazy_errors')


def run_op(xmlschema, schema, op, text):
    if op == 'is_valid':
        return schema.is_valid(text)
    if op == 'iter_errors':
        return [clean_reason(e.reason) for e in schema.iter_errors(text)]
    if op == 'decode_lax':
        data, errs = schema.decode(text, validation='lax')
        return repr(data), [clean_reason(e.reason) for e in errs]
    if op == 'decode_strict':
        # (strict mode raises at the first error: the scratch contexts of the simple types then run in strict mode too)
        return repr(schema.decode(text))
    if op == 'to_objects':
        out = schema.to_objects(text, validation='lax')
        obj, errs = out if isinstance(out, tuple) else (out, [])
        return obj_sig(obj), [clean_reason(e.reason) for e in errs]
    if op == 'encode':
        data, errs = schema.decode(text, validation='lax')
        out = schema.encode(data, validation='lax')
        elem, eerrs = out if isinstance(out, tuple) else (out, [])
        # not ET.tostring: its prefixes depend on the process-wide ET namespace registry, which other calls update
        return (elem_sig(elem) if elem is not None else None), [clean_reason(e.reason) for e in eerrs]
    if op == 'lazy_errors':
        return [clean_reason(e.reason) for e in schema.iter_errors(xmlschema.XMLResource(text.encode('utf-8'), lazy=1))]
    if op == 'simple_scratch':
        out = []
        for name, st in sorted(schema.types.items()):
            if st.is_simple():
                for v in ('1', 'S', 'x y', '2020-02-30', 'AB123'):
                    try:
                        dec = repr(st.decode(v, validation='lax'))
                    except xmlschema.XMLSchemaException as e:
                        dec = type(e).__name__
                    out.append((name, v, st.is_valid(v), dec))
        return out
    raise ValueError(op)


def safe(xmlschema, fn):
    try:
        return ('ok', fn())
    except xmlschema.XMLSchemaException as e:
        return ('exc', type(e).__name__, clean_reason(str(getattr(e, 'reason', None) or e))[:160])
    except BaseException as e:   # noqa
        return ('foreign', type(e).__name__, str(e)[:160])


def globals_sig(schema):
    return sorted((type(c).__name__, c.name) for c in schema.iter_globals() if not isinstance(c, tuple))


def run_threads(spec, res):
    xmlschema = env.activate_repo()
    from vk.mon import probes
    from checks.c10_history import build_pool
    fam, version = spec['family'], spec['version']
    cls = xmlschema.XMLSchema10 if version == '1.0' else xmlschema.XMLSchema11
    xsd = D.family_xsd(fam, version)
    rng = env.rng_for(PROPERTY, spec['tier'], spec['seed'], fam, version, spec['part'])
    pool = [t for _, t, _ in build_pool(fam, rng)][:10]
    scratch_docs = []
    if fam == 'fx':
        # two small documents whose fixed-value comparisons run on the per-schema scratch context with different
        # pattern-restricted unions: used by the `scratch` plans below (few keys, many calls)
        for body in ('<f:u1>07</f:u1>', '<f:u2> 1</f:u2>', '<f:u1> 7</f:u1><f:u2>1 </f:u2>', '<f:d>1.00</f:d><f:s> a b </f:s>'):
            scratch_docs.append(len(pool))
            pool.append(f'<f:fx xmlns:f="{D.FX}">{body}</f:fx>')
    seq_schema = cls(xsd)
    baseline = {(op, i): safe(xmlschema, lambda: run_op(xmlschema, seq_schema, op, pool[i])) for op in OPS for i in range(len(pool))}
    seq_globals = globals_sig(seq_schema)

    from xmlschema.validators.builders import GlobalMaps
    calls = probes.CallCounter()
    calls.watch('GlobalMaps.load', GlobalMaps.load)
    calls.start()
    inj = YieldInjector(env.VERIF_REPO)
    inj.mark_windows(xmlschema)
    old_interval = sys.getswitchinterval()
    traces = set()

    # length of one build in PY_START events of the building thread (the joiners' clock)
    probe = cls(xsd, build=False)
    inj.builder_tid = threading.get_ident()
    inj.reset_phases()
    inj.start(0.0, rng)
    probe.build()
    inj.stop()
    build_len = inj.build_events
    probe_phases = [tuple(ph) for ph in inj.phases]
    inj.builder_tid = None
    res.count('build_length_events', build_len)
    res.count('build_phases', len(probe_phases))
    res.sets.setdefault('build_phase_names', set()).update(n for n, _ in probe_phases)

    for k in range(spec['schedules']):
        scenario = ('build_race', 'validators', 'mixed', 'shared_lazy', 'late_joiner', 'late_user')[k % 6]
        mode = 'stress' if k % 7 == 6 and scenario not in LATE else 'inject'
        p = (0.002, 0.02, 0.2)[k % 3]
        nthreads = rng.choice((2, 3, 4))
        sched_rng = env.rng_for(PROPERTY, 'sched', spec['seed'], fam, version, spec['part'], k)
        plans = []
        for t in range(nthreads):
            ops = OPS[:4] if scenario == 'validators' else OPS
            if scratch_docs and scenario == 'validators' and (k // 6) % 2 == 0:
                # every thread decodes the small fixed-value documents strictly, many times
                plans.append([(sched_rng.choice(('decode_strict', 'decode_strict', 'is_valid')), sched_rng.choice(scratch_docs))
                              for _ in range(24)])
                continue
            plans.append([(sched_rng.choice(ops), sched_rng.randrange(len(pool))) for _ in range(4 if scenario == 'build_race' or scenario in LATE else 6)])
        targets = None
        if scenario in LATE:
            # thread 0 builds; the others arrive when the build has made a drawn amount of progress (biased to its tail,
            # where the components exist but the final passes are still running)
            targets = [None]
            for _ in range(nthreads - 1):
                r = sched_rng.random()
                if r < 0.6:      # just after a phase boundary, later phases preferred
                    ph = sched_rng.randrange(max(0, len(probe_phases) - 10), len(probe_phases)) if sched_rng.random() < 0.7 \
                        else sched_rng.randrange(len(probe_phases))
                    targets.append([ph + 1, sched_rng.randrange(0, 4)])
                else:            # anywhere, weighted by phase length
                    ph = sched_rng.choices(range(len(probe_phases)), weights=[n for _, n in probe_phases])[0]
                    targets.append([ph + 1, sched_rng.randrange(0, probe_phases[ph][1])])
        if scenario == 'build_race' or scenario in LATE:
            schema = cls(xsd, build=False)
            lock = CountingLock(schema.maps._build_lock)
            try:
                object.__setattr__(schema.maps, '_build_lock', lock)
            except (AttributeError, TypeError):
                schema.maps._build_lock = lock
        else:
            schema = cls(xsd)
            lock = None
        shared_text = pool[0]
        shared_file = None
        if scenario == 'shared_lazy' and fam == 'shop' and k % 12 == 3:
            # a long document read from an *open file object*: the reader's position is shared state too (a refused second
            # iteration must not rewind it under the running one)
            import tempfile
            long_doc = D.gen_shop(rng, nprod=rng.randint(90, 130), nord=rng.randint(20, 40))
            shared_text = D.render_doc(long_doc, fam, prefixes=D.default_prefixes(fam, rng))
            shared_file = tempfile.TemporaryFile()
            shared_file.write(shared_text.encode('utf-8'))
            shared_file.seek(0)
            res.count('shared_lazy:open_file_long_document')
        shared_lazy = xmlschema.XMLResource(shared_file or shared_text.encode('utf-8'), lazy=1) if scenario == 'shared_lazy' else None
        lazy_baseline = safe(xmlschema, lambda: [clean_reason(e.reason) for e in seq_schema.iter_errors(
            xmlschema.XMLResource(shared_text.encode('utf-8'), lazy=1))])
        results = [None] * nthreads
        barrier = threading.Barrier(nthreads)
        calls.reset()

        def body(t):
            out = []
            try:
                barrier.wait(timeout=20)
            except threading.BrokenBarrierError:
                pass
            if scenario == 'build_race':
                out.append(('build', safe(xmlschema, lambda: schema.build())))
            elif scenario in LATE:
                if t == 0:
                    inj.builder_tid = threading.get_ident()
                    out.append(('build', safe(xmlschema, lambda: schema.build())))
                    inj.builder_tid = None
                    builder_done.set()
                else:
                    while not releases[t].is_set() and not builder_done.is_set():
                        time.sleep(0)
                    arrived[t] = (inj.phase, builder_done.is_set())
                    if scenario == 'late_joiner':
                        # the documented way to share an unbuilt schema: every user calls build() first
                        out.append(('build', safe(xmlschema, lambda: schema.build())))
            for op, i in plans[t]:
                if scenario == 'shared_lazy' and op == 'lazy_errors':
                    out.append((('shared_lazy', 0), safe(xmlschema, lambda: [clean_reason(e.reason) for e in schema.iter_errors(shared_lazy)])))
                else:
                    out.append(((op, i), safe(xmlschema, lambda: run_op(xmlschema, schema, op, pool[i]))))
            results[t] = out
            if t in dones:
                dones[t].set()

        builder_done = threading.Event()
        arrived = {}
        inj.reset_phases()
        releases, dones = {}, {}
        if scenario in LATE:
            for t in range(1, nthreads):
                releases[t], dones[t] = threading.Event(), threading.Event()
                inj.parks.setdefault(tuple(targets[t]), (releases[t], dones[t]))
                if inj.parks[tuple(targets[t])][0] is not releases[t]:      # two joiners drew the same point
                    releases[t], dones[t] = inj.parks[tuple(targets[t])]
        threads = [threading.Thread(target=body, args=(t,), daemon=True) for t in range(nthreads)]
        if scenario in LATE:
            sys.setswitchinterval(1e-4)
        if mode == 'stress':
            sys.setswitchinterval(1e-6)
            inj.start(0.0, sched_rng)
        else:
            inj.start(p, sched_rng)
        for th in threads:
            th.start()
        stuck = False
        for th in threads:
            th.join(timeout=120)
            stuck = stuck or th.is_alive()
        inj.stop()
        sys.setswitchinterval(old_interval)
        res.evaluations += 1
        res.count('schedules:' + scenario)
        res.count('mode:' + mode)
        res.count('switches', inj.switches)
        for w, n in inj.window_hits.items():
            res.count('window_hits:' + w, n)
        inj.window_hits = {w: 0 for w in inj.window_hits}
        if lock is not None:
            res.count('build_lock:contended', lock.contended)
            res.count('build_lock:acquired', lock.acquired)
        trace_hash = env.h8(tuple(_rank(inj.trace)))
        if inj.switches:
            traces.add(trace_hash)
            res.nontrivial.add(trace_hash)
        case = {'family': fam, 'version': version, 'scenario': scenario, 'mode': mode, 'p': p, 'threads': nthreads,
                'plans': plans, 'targets': targets, 'docs': pool, 'schedule_seed': [spec['seed'], spec['part'], k]}
        if stuck:
            res.inconclusive_case('thread still alive after join timeout', {'scenario': scenario, 'k': k})
            break
        if scenario in LATE:
            for t, (ph, done) in arrived.items():
                res.count(scenario + ':arrived_' + ('after_build' if done else 'during_build'))
                if not done and 0 < ph <= len(inj.phases):
                    res.count('late:arrived_in_phase:' + inj.phases[ph - 1][0])
        if scenario == 'build_race' or scenario in LATE:
            n = calls.counts['GlobalMaps.load']
            res.count('build_body_executions', n)
            if n != 1:
                res.violation('build-body-executed-%d-times' % n, case, f'{fam} {version}: GlobalMaps.load ran {n} times for racing builders')
            g = globals_sig(schema)
            if g != seq_globals:
                # (a user that never called build() can leave the maps damaged for good: the listed finding of that scenario)
                res.violation('unbuilt-schema-used-while-another-thread-builds:result-differs' if scenario == 'late_user'
                              else 'raced-build-globals-differ', case, f'{fam} {version}: {len(g)} globals vs {len(seq_globals)} sequential')
        bad = None
        for t, out in enumerate(results):
            if out is None:
                bad = (t, 'thread produced no result')
                break
            for key, got in out:
                if key == 'build':
                    if got[0] != 'ok':
                        bad = (t, f'build() raised {got}')
                    continue
                if key[0] == 'shared_lazy':
                    okset = (lazy_baseline, )
                    if got not in okset and not (got[0] == 'exc' and got[1] == 'XMLResourceError' and 'already under iteration' in got[2]):
                        bad = (t, f'shared lazy resource: {str(got)[:200]} (baseline {str(lazy_baseline)[:120]})')
                    elif got not in okset:
                        res.count('shared_lazy:documented_error')
                    continue
                want = baseline[key]
                if scenario == 'late_user' and t and got[0] == 'exc' and got[1] == 'XMLSchemaNotBuiltError':
                    # a user that did not call build() may find the schema unbuilt, as it would single-threaded
                    res.count('late_user:not_built_error')
                    continue
                if got != want:
                    bad = (t, f'{key[0]}(doc {key[1]}): got {str(got)[:200]} sequential {str(want)[:200]}')
                    break
            if bad:
                break
        if bad:
            kind = 'foreign-exception-in-thread' if 'foreign' in bad[1][:80] else 'thread-result-differs'
            if scenario == 'shared_lazy' and 'shared lazy' in bad[1]:
                kind = 'shared-lazy-resource-corrupted'
            if scenario == 'late_user':
                kind = 'unbuilt-schema-used-while-another-thread-builds'
                scenario_tag = 'foreign-exception' if 'foreign' in bad[1][:80] else 'result-differs'
                res.violation(f'{kind}:{scenario_tag}', case, f'{fam} {version} p={p} thread {bad[0]}: {bad[1]}')
                continue
            res.violation(f'{kind}:{scenario}', case, f'{fam} {version} {scenario}/{mode} p={p} thread {bad[0]}: {bad[1]}')
        else:
            res.count('schedules:agree')
        if k < 2:
            res.sample({'family': fam, 'scenario': scenario, 'mode': mode, 'threads': nthreads, 'switches': inj.switches,
                        'trace_prefix': _rank(inj.trace)[:40]})
    calls.stop()
    res.count('distinct_traces_in_shard', len(traces))


def _rank(trace):
    ids = {}
    return [ids.setdefault(t, len(ids)) for t in trace]


def run_cov(spec, res):
    """A small sequential + 2-thread run with line coverage on (the injector is off here)."""
    xmlschema = env.activate_repo()
    cls = xmlschema.XMLSchema10
    schema = cls(D.SHOP_XSD, build=False)
    rng = env.rng_for(PROPERTY, 'cov')
    doc = D.render_doc(D.gen_shop(rng), 'shop')
    ths = [threading.Thread(target=lambda: (schema.build(), schema.is_valid(doc))) for _ in range(2)]
    for t in ths:
        t.start()
    for t in ths:
        t.join()
    for st in schema.types.values():
        if st.is_simple():
            st.text_is_valid('1')
            st.text_decode('1')
    list(schema.iter_errors(xmlschema.XMLResource(doc.encode(), lazy=1)))
    res.count('cov:runs')


def run_shard(spec, res):
    {'threads': run_threads, 'cov': run_cov}[spec['kind']](spec, res)


def finalize(res, tier):
    c = res.counters
    reasons = []
    if not c.get('build_body_executions'):
        reasons.append('the build-once probe (PY_START on GlobalMaps.load) never fired')
    if not c.get('window_hits:build'):
        reasons.append('no hand-over was observed while a thread was inside the build window')
    if c.get('switches', 0) < 1000:
        reasons.append('fewer than 1000 context switches observed')
    if not c.get('late_joiner:arrived_during_build'):
        reasons.append('no late joiner arrived while the build was in progress')
    if c.get('schedules:agree', 0) < 50:
        reasons.append('fewer than 50 schedules compared')
    return {'inconclusive': reasons}


def replay(case):
    """Re-runs the scenario 30 times with the recorded plans (schedules are not bit-reproducible across processes)."""
    from vk.result import Result
    res = Result()
    seed, part, k = case['schedule_seed']
    spec = {'family': case['family'], 'version': case['version'], 'schedules': max(k + 1, 40), 'part': part,
            'tier': 'quick', 'seed': seed}
    run_threads(spec, res)
    for v in res.violations:
        print(v['mechanism'], v['detail'][:400])
    return bool(res.violations)
