"""C19 - errors point at the offending node; a single fault is reported there and only there."""
import os

from vk import env
from vk.gen import docs as D

PROPERTY = 'C19'
LEVEL = 'exploration'
RULE = ('generated valid documents of two feature-rich schema families (shop: facets, lists, unions, xsi:type, substitution, '
        'nil, mixed content, lax wildcards, key/keyref/unique, ID/IDREF; tree: recursive branches with scoped unique) x every '
        'single-node fault of the catalogue {bad text, missing required child, unknown child, swapped children, missing '
        'required attribute, unknown attribute, bad attribute value} at every node (exhaustive per document) + document-wide '
        'identity faults, XMLSchema10 and XMLSchema11, ElementTree and lxml trees; plus corpus instances (valid and invalid) '
        'for the path claim only; a case = (family, document, fault); distinct non-trivial = distinct (family, fault kind, '
        'depth, tag of the damaged node) combinations at depth >= 1')
RULE += (' ' + 'Shard laxwrap: faults in declared elements below undeclared wrappers admitted by a lax wildcard.')
ASSUMPTIONS = [
    'faults are invalid by construction and never touch key / ID bearing values (a change there is legitimately reported at the referring node)',
    'the damaged node of an inserted or misplaced child is that child; its container and the container\'s parent are accepted locations',
    'paths are evaluated by an independent evaluator for the emitted syntax (/p:a/p:b[2]) and cross-checked with XMLResource.findall',
    'lazy resources are not claimed (errors there carry no element by design)',
]
ANCHORS = {
    'xmlschema/validators/exceptions.py': [(171, 182)],
    'xmlschema/utils/etree.py': [(75, 130)],
    'xmlschema/validators/groups.py': [(995, 1087)],
    'xmlschema/validators/validation.py': [(216, 318)],
    'xmlschema/validators/elements.py': [(630, 640)],
}
SHARD_TIMEOUT = {'quick': 600, 'thorough': 3600}
LEVEL_TEXT = ('Runtime monitoring of the real validators on generated documents damaged at one known node: every reported '
              'error path is re-evaluated by an independent evaluator and must select exactly the error\'s element; faults '
              'must be reported at the damaged node (or its container) and nowhere outside its ancestor chain and subtree.')
LEVEL_NOTE = ('Trusted: the fault injector\'s by-construction knowledge of the damaged node, the 40-line path evaluator, '
              'ElementTree / lxml parsers. Two hand-written schema families + the repository corpus.')
TECHNIQUE = 'runtime monitoring: fault injection with location oracle over recorded validation errors'


def plan(tier, seed):
    ndocs = 160 if tier == 'quick' else 1400
    shards = 16 if tier == 'quick' else 48
    specs = []
    for s in range(shards):
        specs.append({'kind': 'gen', 'docs': ndocs // shards + 1, 'gshard': s})
    specs.append({'kind': 'corpus'})
    specs.append({'kind': 'laxwrap', 'docs': 150 if tier == 'quick' else 1500})
    return specs


# ---------------------------------------------------------------------------------------------
from vk.paths import eval_path, index_paths  # noqa: E402


def check_paths(res, schema, resource, errs, label, case):
    """Claim (a): each error's path selects exactly one node, namely err.elem."""
    root = resource.root
    for e in errs:
        res.count('errors:seen')
        if e.elem is None:
            res.count('errors:without_elem')
            res.violation('error-without-element', case, f'{label}: {e.reason}')
            continue
        path = e.path
        if path is None:
            res.violation('error-without-path', case, f'{label}: {e.reason}')
            continue
        try:
            sel = eval_path(root, path, e.namespaces or {})
        except (KeyError, ValueError) as x:
            res.violation('path-not-evaluable', case, f'{label}: path {path!r} {x!r}')
            continue
        res.count('paths:evaluated')
        if len(sel) != 1:
            res.violation('path-selects-%s-nodes' % ('no' if not sel else 'several'), case,
                          f'{label}: path {path!r} selects {len(sel)} nodes; reason {e.reason}')
        elif sel[0] is not e.elem:
            res.violation('path-selects-other-node', case,
                          f'{label}: path {path!r} selects {sel[0].tag} but error elem is {e.elem.tag}: {e.reason}')
        else:
            # cross-check with the library's own selector
            try:
                lib = resource.findall(path, e.namespaces)
            except Exception as x:
                res.count('paths:findall_raised:' + type(x).__name__)
                continue
            res.count('paths:crosschecked')
            if len(lib) != 1 or lib[0] is not e.elem:
                res.violation('findall-disagrees-with-path', case, f'{label}: {path!r} findall gives {len(lib)} nodes')


def run_gen(spec, res):
    xmlschema = env.activate_repo()
    from lxml import etree as lxml_etree
    schemas = {}
    for fam in list(D.FAMILIES) + ['un']:
        for v, cls in (('1.0', xmlschema.XMLSchema10), ('1.1', xmlschema.XMLSchema11)):
            schemas[fam, v] = cls(D.family_xsd(fam, v))
    rng = env.rng_for(PROPERTY, spec['tier'], spec['seed'], spec['gshard'])
    for d in range(spec['docs']):
        fam = rng.choice(('shop', 'shop', 'tree', 'ctx', 'un'))
        doc = D.GENERATORS[fam](rng)
        version = rng.choice(('1.0', '1.1'))
        schema = schemas[fam, version]
        prefixes = D.default_prefixes(fam, rng)
        text = D.render_doc(doc, fam, prefixes=prefixes)
        base = {'family': fam, 'version': version, 'doc': text}
        # the valid document itself
        resource = xmlschema.XMLResource(text)
        errs = list(schema.iter_errors(resource))
        res.case()
        if errs:
            res.inconclusive_case('generated document not valid', {'family': fam, 'reasons': [e.reason for e in errs][:3]})
            continue
        faults = []
        for path, node in doc.walk():
            for kind in D.faults_at(doc, path):
                faults.append((path, kind))
        if spec['tier'] == 'quick' and len(faults) > 60:
            rng.shuffle(faults)
            faults = faults[:60]
        for path, kind in faults:
            r = D.apply_fault(doc, path, kind, rng)
            if r is None:
                continue
            damaged, dpath, detail = r
            one_fault(res, xmlschema, lxml_etree, schema, fam, version, damaged, dpath, kind, detail, prefixes, rng)
        # a tree that keeps comments / PIs (lxml): character data after a comment inside an element-only content is a
        # single-node damage of that element, like stray text after a child element
        stray_text_after_comment(res, xmlschema, lxml_etree, schema, fam, version, doc, text, rng)
        for kind in D.IDENTITY_FAULTS:
            r = D.identity_fault(doc, fam, kind, rng)
            if r is None:
                continue
            damaged, detail = r
            t2 = D.render_doc(damaged, fam, prefixes=prefixes)
            resource = xmlschema.XMLResource(t2)
            errs = list(schema.iter_errors(resource))
            res.case(env.h8((fam, kind)))
            res.count('identity_fault:' + kind)
            case = {'family': fam, 'version': version, 'doc': t2, 'fault': kind}
            if not errs:
                res.violation('identity-fault-not-reported:' + kind, case, detail)
            check_paths(res, schema, resource, errs, kind, case)


def stray_text_after_comment(res, xmlschema, lxml_etree, schema, fam, version, doc, text, rng):
    cands = [p for p, n in doc.walk() if n.meta.get('elem_only') and n.children]
    if not cands:
        return
    dpath = rng.choice(cands)
    root = lxml_etree.fromstring(text.encode('utf-8'))
    target = root
    for i in dpath:
        target = [c for c in target if isinstance(c.tag, str)][i]
    node = lxml_etree.Comment(' c ') if rng.random() < 0.5 else lxml_etree.ProcessingInstruction('vk', 'x')
    node.tail = 'stray'
    target.insert(rng.randint(0, len(target)), node)
    resource = xmlschema.XMLResource(root)
    errs = list(schema.iter_errors(resource))
    res.case(env.h8((fam, 'stray_text_after_comment', len(dpath))))
    res.count('fault:stray_text_after_comment')
    case = {'family': fam, 'version': version, 'doc': lxml_etree.tostring(root).decode(), 'fault': 'stray_text_after_comment',
            'path': list(dpath), 'lxml': True}
    label = f'{fam} stray text after a comment / PI inside the element-only content at {"/".join(map(str, dpath)) or "root"}'
    if not errs:
        res.violation('fault-not-reported:stray_text_after_comment', case, label)
        return
    check_paths(res, schema, resource, errs, label, case)
    idx = index_paths(resource.root)
    located = [idx[id(e.elem)] for e in errs if e.elem is not None and id(e.elem) in idx]
    if tuple(dpath) not in located:
        res.violation('no-error-at-damaged-node:stray_text_after_comment', case, label + ' errors at ' + str(located))
    else:
        res.count('faults:localised')


def one_fault(res, xmlschema, lxml_etree, schema, fam, version, damaged, dpath, kind, detail, prefixes, rng):
    text = D.render_doc(damaged, fam, prefixes=prefixes)
    use_lxml = rng.random() < 0.3
    if use_lxml:
        resource = xmlschema.XMLResource(lxml_etree.fromstring(text.encode('utf-8')))
    else:
        resource = xmlschema.XMLResource(text)
    errs = list(schema.iter_errors(resource))
    node = damaged.at(dpath)
    res.case(env.h8((fam, kind, len(dpath), node.name)) if dpath else None)
    res.count('fault:' + kind)
    res.count('parser:' + ('lxml' if use_lxml else 'etree'))
    case = {'family': fam, 'version': version, 'doc': text, 'fault': kind, 'path': list(dpath), 'lxml': use_lxml}
    label = f'{fam} {kind} at {"/".join(map(str, dpath)) or "root"} ({detail})'
    if not errs:
        res.violation('fault-not-reported:' + kind, case, label)
        return
    check_paths(res, schema, resource, errs, label, case)
    idx = index_paths(resource.root)
    located = []
    for e in errs:
        if e.elem is not None and id(e.elem) in idx:
            located.append(idx[id(e.elem)])
    # accepted "at the damaged node or its parent": the node, its parent, and for child-level faults
    # (inserted / misplaced / missing child) the children of the container
    ok_at = {tuple(dpath), tuple(dpath[:-1])}
    if kind in ('extra_child', 'swap', 'missing_child'):
        ok_at |= {tuple(dpath) + (i,) for i in range(len(node.children) + 1)}
    if not any(p in ok_at for p in located):
        res.violation('no-error-at-damaged-node:' + kind, case, label + ' errors at ' + str(located))
    for p, e in zip(located, [e for e in errs if e.elem is not None and id(e.elem) in idx]):
        in_chain = tuple(dpath[:len(p)]) == p           # ancestor or the node itself
        in_subtree = p[:len(dpath)] == tuple(dpath)
        if not (in_chain or in_subtree):
            res.violation('error-outside-damaged-chain:' + kind, case,
                          label + f' error at {p}: {e.reason[:120]}')
            break
    else:
        res.count('faults:localised')
    if len(res.samples) < 2:
        res.sample({'family': fam, 'fault': kind, 'damaged_path': list(dpath), 'detail': detail,
                    'errors': [[list(p), e.path] for p, e in zip(located, errs)][:3]})


def run_corpus(spec, res):
    xmlschema = env.activate_repo()
    from vk.gen import corpus as C
    for entry in C.instances():
        schema = C.schema_for(entry)
        if schema is None:
            continue
        try:
            resource = xmlschema.XMLResource(entry['xml'])
            errs = list(schema.iter_errors(resource))
        except xmlschema.XMLSchemaException:
            res.count('corpus:raised')
            continue
        res.case(env.h8(entry['xml']) if errs else None)
        res.count('corpus:documents')
        case = {'corpus': os.path.relpath(entry['xml'], env.VERIF_REPO), 'version': entry['version']}
        check_paths(res, schema, resource, errs, case['corpus'], case)


# Declared elements below *undeclared* wrappers that a lax wildcard admits: the wrapper is assessed laxly (as xs:anyType), so
# every descendant that has a global declaration is validated, and a fault there is reported there.
LAXWRAP_XSD = """<xs:schema xmlns:xs="http://www.w3.org/2001/XMLSchema">
<xs:element name="root"><xs:complexType><xs:sequence><xs:element name="head" type="xs:string"/>
 <xs:any processContents="lax" minOccurs="0" maxOccurs="unbounded"/></xs:sequence></xs:complexType></xs:element>
<xs:element name="qty" type="xs:int"/><xs:element name="flag" type="xs:boolean"/>
<xs:element name="rec"><xs:complexType><xs:sequence><xs:element ref="qty" maxOccurs="unbounded"/></xs:sequence>
 <xs:attribute name="id" type="xs:int" use="required"/></xs:complexType></xs:element>
</xs:schema>"""


def laxwrap_tree(rng, depth=0):
    """[tag, attrs, text, children]; wrappers 'ext' / 'box' have no declaration."""
    r = rng.random()
    if depth < 3 and r < 0.45:
        return [rng.choice(('ext', 'box')), {}, None, [laxwrap_tree(rng, depth + 1) for _ in range(rng.randint(1, 3))]]
    if r < 0.65:
        return ['qty', {}, str(rng.randint(0, 99)), []]
    if r < 0.8:
        return ['flag', {}, rng.choice(('true', 'false', '0', '1')), []]
    return ['rec', {'id': str(rng.randint(1, 9))}, None, [['qty', {}, str(rng.randint(0, 99)), []] for _ in range(rng.randint(1, 2))]]


def laxwrap_render(n):
    attrs = ''.join(f' {k}="{v}"' for k, v in n[1].items())
    return f'<{n[0]}{attrs}>{n[2] or ""}{"".join(laxwrap_render(c) for c in n[3])}</{n[0]}>'


def run_laxwrap(spec, res):
    import copy
    xmlschema = env.activate_repo()
    rng = env.rng_for(PROPERTY, spec['tier'], spec['seed'], 'laxwrap')
    for version, cls in (('1.0', xmlschema.XMLSchema10), ('1.1', xmlschema.XMLSchema11)):
        schema = cls(LAXWRAP_XSD)
        for d in range(spec['docs']):
            root = ['root', {}, None, [['head', {}, 'h', []]] + [laxwrap_tree(rng) for _ in range(rng.randint(1, 3))]]
            text = laxwrap_render(root)
            case = {'family': 'laxwrap', 'version': version, 'doc': text}
            if not schema.is_valid(text):
                res.violation('laxwrap:undamaged-document-rejected', case, text[:300])
                continue
            declared = []        # (path, node, wrappers above)

            def walk(n, path, wrapped):
                for i, c in enumerate(n[3]):
                    if c[0] in ('qty', 'flag', 'rec'):
                        declared.append((path + (i,), wrapped))
                    walk(c, path + (i,), wrapped + (c[0] in ('ext', 'box')))
            walk(root, (), 0)
            if not declared:
                continue
            dpath, wrapped = rng.choice(declared)
            damaged = copy.deepcopy(root)
            node = damaged
            for i in dpath:
                node = node[3][i]
            if node[0] == 'rec':
                kind = rng.choice(('bad_attribute', 'missing_attribute'))
                if kind == 'bad_attribute':
                    node[1]['id'] = 'x'
                else:
                    del node[1]['id']
            else:
                kind = 'bad_value'
                node[2] = 'two'
            text = laxwrap_render(damaged)
            case = {'family': 'laxwrap', 'version': version, 'doc': text, 'fault': kind, 'path': list(dpath)}
            label = f'laxwrap {kind} at {"/".join(map(str, dpath))} under {wrapped} undeclared wrappers'
            res.evaluations += 1
            res.case(env.h8(('laxwrap', kind, len(dpath), wrapped)))
            res.count(f'laxwrap:fault:{kind}:wrappers={min(wrapped, 2)}')
            resource = xmlschema.XMLResource(text)
            errs = list(schema.iter_errors(resource))
            if not errs or schema.is_valid(text):
                res.violation(f'fault-not-reported:laxwrap:{kind}:{"under-undeclared-wrapper" if wrapped else "direct"}', case, label)
                continue
            check_paths(res, schema, resource, errs, label, case)
            idx = index_paths(resource.root)
            located = [idx[id(e.elem)] for e in errs if e.elem is not None and id(e.elem) in idx]
            if not any(p in (tuple(dpath), tuple(dpath[:-1])) for p in located):
                res.violation('no-error-at-damaged-node:laxwrap:' + kind, case, label + ' errors at ' + str(located))
            elif any(not (tuple(dpath[:len(p)]) == p or p[:len(dpath)] == tuple(dpath)) for p in located):
                res.violation('error-outside-damaged-chain:laxwrap:' + kind, case, label + ' errors at ' + str(located))
            else:
                res.count('laxwrap:localised')


def run_shard(spec, res):
    if spec['kind'] == 'laxwrap':
        return run_laxwrap(spec, res)
    if spec['kind'] == 'gen':
        run_gen(spec, res)
    else:
        run_corpus(spec, res)


def finalize(res, tier):
    c = res.counters
    reasons = []
    if c.get('paths:evaluated', 0) < 100:
        reasons.append('fewer than 100 error paths evaluated')
    if c.get('faults:localised', 0) < 100:
        reasons.append('fewer than 100 faults localised')
    if not c.get('laxwrap:localised'):
        reasons.append('no fault under a lax wildcard localised')
    for k in D.FAULT_KINDS:
        if not c.get('fault:' + k):
            reasons.append(f'fault kind {k} never injected')
    return {'inconclusive': reasons}


def replay(case):
    xmlschema = env.activate_repo()
    from vk.result import Result
    res = Result()
    if 'corpus' in case:
        from vk.gen import corpus as C
        for entry in C.instances():
            if entry['xml'].endswith(case['corpus']):
                schema = C.schema_for(entry)
                resource = xmlschema.XMLResource(entry['xml'])
                check_paths(res, schema, resource, list(schema.iter_errors(resource)), case['corpus'], case)
    else:
        cls = xmlschema.XMLSchema10 if case['version'] == '1.0' else xmlschema.XMLSchema11
        schema = cls(LAXWRAP_XSD if case['family'] == 'laxwrap' else D.family_xsd(case['family'], case['version']))
        resource = xmlschema.XMLResource(case['doc'])
        errs = list(schema.iter_errors(resource))
        print(case['doc'])
        for e in errs:
            print('ERROR', e.path, '|', e.reason)
        check_paths(res, schema, resource, errs, 'replay', case)
        if not errs:
            return True
    for v in res.violations:
        print(v['mechanism'], v['detail'])
    return bool(res.violations)
