"""C20 - schema paths match instance paths; partial validation/decoding equals the full result."""
from vk import env
from vk.gen import docs as D

PROPERTY = 'C20'
LEVEL = 'exploration'
RULE = ('generated documents of four schema families (plain: no namespaces at all, empty caller map; shop: references, substitution members, xsi:type; tree: recursive '
        'references; ctx: one local name `item` declared with four different types in different contexts) and the repository '
        'corpus; for every element not matched through a wildcard: the declaration recorded by a class-level recorder on '
        'XsdElement.raw_decode during validation is compared with schema.get_element(tag, path) and find(path).match(tag) for '
        'the prefixed, default-namespace and positional-predicate forms of its path; decode/to_objects/iter_errors with '
        'path= are compared with the matching part of the full run (valid and single-fault documents); max_depth in 0..4 is '
        'compared with the full tree above the cut; a case = (document, element path, api); distinct non-trivial = distinct '
        '(family, tag path without positions, api)')
RULE += (' ' + 'Shard ident (family lib: unique / key constraints on the root, on each shelf and on each book, 0-2 seeded duplicates): iter_errors / is_valid with seven path forms on full, thin-lazy and lazy resources; a duplicate whose two holders lie in the selected part must be reported, nothing may be reported that the full run does not report there.')
RULE += (' ' + 'Shard lazycut: lazy depth 1-3 x thin_lazy with same-named local and global declarations on three levels; verdict and error reasons equal to the full run.')
ASSUMPTIONS = [
    'the governing declaration is the XsdElement whose raw_decode received the instance element (references resolved through .ref)',
    '"yields the declaration" is read through the library\'s own rule get_element(tag, path) == find(path).match(tag)',
    'identity-constraint and IDREF errors are document-wide and excluded from the partial-vs-full error comparison',
    'elements matched through wildcards have no schema path and are excluded',
]
ANCHORS = {
    'xmlschema/xpath/mixin.py': [(96, 160)],
    'xmlschema/validators/schemas.py': [(946, 963), (1326, 1391), (1571, 1613)],
    'xmlschema/validators/groups.py': [(993, 993), (1042, 1056)],
    'xmlschema/resources/xml_resource.py': [(658, 724)],
}
SHARD_TIMEOUT = {'quick': 600, 'thorough': 3600}
LEVEL_TEXT = ('Runtime monitoring with a recorder hooked (from the harness) on XsdElement.raw_decode: the declaration that '
              'actually governed each instance element is compared with what the schema path lookup returns; partial runs '
              '(path=, max_depth=) are compared with the corresponding part of the recorded full run.')
LEVEL_NOTE = ('Trusted: the recorder (class-level wrapper, counted), own tree/path bookkeeping in vk/gen/docs.py, DataElement '
              'structure for sub-selection. Three hand-written families + corpus; not arbitrary schemas.')
TECHNIQUE = 'runtime monitoring: hooked-state recorder + differential oracle (partial vs full run)'


def plan(tier, seed):
    ndocs = 160 if tier == 'quick' else 1800
    shards = 16 if tier == 'quick' else 48
    specs = [{'kind': 'gen', 'docs': ndocs // shards, 'gshard': s} for s in range(shards)]
    specs.append({'kind': 'corpus'})
    for s in range(2 if tier == 'quick' else 8):
        specs.append({'kind': 'ident', 'ishard': s, 'docs': 30 if tier == 'quick' else 150})
    specs.append({'kind': 'lazycut', 'docs': 60 if tier == 'quick' else 600})
    return specs


class Recorder:
    """Class-level wrapper on XsdElement.raw_decode: instance element -> governing declaration."""

    def __init__(self):
        from xmlschema.validators.elements import XsdElement
        self.cls = XsdElement
        self.orig = XsdElement.raw_decode
        self.map = {}
        self.hits = 0
        rec = self

        def raw_decode(self, obj, validation, context):
            rec.hits += 1
            rec.map[id(obj)] = self
            return rec.orig(self, obj, validation, context)
        XsdElement.raw_decode = raw_decode

    def clear(self):
        self.map.clear()


def resolved(x):
    return getattr(x, 'ref', None) or x


def etree_paths(root, prefixes, positional):
    """[(elem, index_path, path string)] using the document's own prefixes."""
    out = []

    def qn(tag):
        if tag[0] == '{':
            ns, ln = tag[1:].split('}')
            p = prefixes[ns]
            return f'{p}:{ln}' if p else ln
        return tag

    def rec(e, ip, sp):
        out.append((e, ip, sp))
        kids = [c for c in e if not callable(c.tag)]
        for k, c in enumerate(kids):
            same = [x for x in kids if x.tag == c.tag]
            step = qn(c.tag)
            if positional and len(same) > 1:
                step += '[%d]' % (same.index(c) + 1)
            rec(c, ip + (k,), sp + '/' + step)
    rec(root, (), '/' + qn(root.tag))
    return out


def obj_sig(o, depth_limit=None, depth=0):
    """Structural signature of a DataElement tree."""
    if o is None:
        return None
    kids = list(o)
    return (o.tag, tuple(sorted((k, repr(v)) for k, v in o.attrib.items())), repr(o.value) if not kids else None,
            tuple(obj_sig(c, depth_limit, depth + 1) for c in kids))


from vk.paths import eval_path, index_paths, is_identity_error  # noqa: E402


def strip_pos(path):
    import re
    return re.sub(r'\[\d+\]', '', path)


def run_doc(res, xmlschema, rec, schema, fam, version, text, prefixes, nsmap, wild_paths, rng, tier, faulted=False):
    resource = xmlschema.XMLResource(text)
    rec.clear()
    full_errs = list(schema.iter_errors(resource))
    governing = dict(rec.map)
    if not faulted and full_errs:
        res.inconclusive_case('generated document not valid', [fam, full_errs[0].reason])
        return
    root = resource.root
    items = etree_paths(root, prefixes, positional=True)
    items_nopos = {ip: sp for _, ip, sp in etree_paths(root, prefixes, positional=False)}
    case0 = {'family': fam, 'version': version, 'doc': text}
    # (1) governing declaration vs schema path lookup
    if not faulted:
        for e, ip, sp in items:
            if any(ip[:len(w)] == w for w in wild_paths):
                continue
            gov = governing.get(id(e))
            if gov is None:
                res.count('lookup:element_without_recorded_declaration')
                continue
            for form, path in (('positional', sp), ('plain', items_nopos[ip])):
                res.case(env.h8((fam, strip_pos(sp), 'lookup', form)))
                res.count('lookup:' + form)
                try:
                    got = schema.get_element(e.tag, path, nsmap)
                    found = schema.find(path, nsmap)
                except xmlschema.XMLSchemaException as x:
                    res.violation('lookup-raised', dict(case0, path=path), f'{path}: {x!r}'[:300])
                    continue
                via_match = found.match(e.tag) if found is not None and hasattr(found, 'match') else None
                if got is None or resolved(got) is not resolved(gov):
                    res.violation('get_element-differs-from-governing-declaration', dict(case0, path=path, tag=e.tag),
                                  f'{fam}: get_element({e.tag}, {path}) -> {got!r} but validation used {gov!r} (type {gov.type!r})')
                elif via_match is None or resolved(via_match) is not resolved(gov):
                    res.violation('find-match-differs-from-governing-declaration', dict(case0, path=path, tag=e.tag),
                                  f'{fam}: find({path}).match -> {via_match!r} but validation used {gov!r}')
                else:
                    res.count('lookup:agree')
                    # the other lookup entry points: findall / iterfind give the same first node as find; the parent path
                    # with a wildcard last step (the form the lazy validators use) gives the governing declaration too
                    if form == 'plain':
                        res.count('lookup:other_entry_points')
                        fa = schema.findall(path, nsmap)
                        fi = list(schema.iterfind(path, nsmap))
                        if not fa or fa[0] is not found or not fi or fi[0] is not found:
                            res.violation('findall-or-iterfind-differs-from-find', dict(case0, path=path, tag=e.tag),
                                          f'{fam}: find({path}) -> {found!r}, findall -> {fa[:2]!r}, iterfind -> {fi[:2]!r}')
                        if '/' in path.strip('/') and resolved(found) is resolved(gov):
                            # (not for substitution-group members: a wildcard step names no element, and the particle
                            # found for a member is the head's, which selects the member when it decodes the element)
                            wpath = path.rsplit('/', 1)[0] + '/*'
                            gw = schema.get_element(e.tag, wpath, nsmap)
                            if gw is None or resolved(gw) is not resolved(gov):
                                res.violation('get_element-with-wildcard-step-differs-from-governing-declaration',
                                              dict(case0, path=wpath, tag=e.tag),
                                              f'{fam}: get_element({e.tag}, {wpath}) -> {gw!r} but validation used {gov!r}')
                        own = {p: u for p, u in schema.namespaces.items() if p}
                        if nsmap and all(own.get(p) == u for p, u in nsmap.items() if p and p != 'xsi') and '' not in nsmap:
                            # the caller's prefixes are the schema document's own: no map at all means the same
                            res.count('lookup:without_namespace_map')
                            gn = schema.get_element(e.tag, path)
                            if gn is None or resolved(gn) is not resolved(gov):
                                res.violation('get_element-without-namespace-map-differs', dict(case0, path=path, tag=e.tag),
                                              f'{fam}: get_element({e.tag}, {path}) without namespaces -> {gn!r} but validation used {gov!r}')
    # (2)/(3) partial runs
    full_obj = schema.to_objects(resource, validation='lax')
    full_obj = full_obj[0] if isinstance(full_obj, tuple) else full_obj
    idx_of = {id(e): ip for e, ip, _ in items}
    cand = [(e, ip, sp) for e, ip, sp in items if ip and not any(ip[:len(w)] == w for w in wild_paths)]
    rng.shuffle(cand)
    limit = 6 if tier == 'quick' else 14
    for e, ip, sp in cand[:limit]:
        for form, path in (('positional', sp), ('plain', items_nopos[ip])):
            selected = [x for x, ip2, sp2 in items if (sp2 == path if form == 'positional' else items_nopos[ip2] == path)]
            sel_paths = [idx_of[id(x)] for x in selected]
            case = dict(case0, path=path)
            # errors
            res.case(env.h8((fam, strip_pos(sp), 'errors', form)))
            res.count('partial:errors:' + form)
            try:
                perrs = list(schema.iter_errors(xmlschema.XMLResource(text), path=path, namespaces=nsmap))
            except xmlschema.XMLSchemaException as x:
                res.violation('partial-iter_errors-raised', case, f'{path}: {x!r}'[:300])
                continue
            want = sorted((e2.reason, tuple(idx_of.get(id(e2.elem), ()))) for e2 in full_errs
                          if not is_identity_error(e2) and e2.elem is not None and
                          any(idx_of.get(id(e2.elem), ())[:len(p)] == p for p in sel_paths))
            # partial errors carry elements of another resource: locate them through their own paths
            got = []
            for e2 in perrs:
                if is_identity_error(e2):
                    continue
                src_root = e2.root
                sel = eval_path(src_root, e2.path, e2.namespaces or {}) if src_root is not None and e2.path else []
                ip2 = index_paths(src_root).get(id(sel[0])) if len(sel) == 1 else None
                got.append((e2.reason, ip2))
            want_p = sorted(want, key=repr)
            got = sorted(got, key=repr)
            if got != want_p:
                res.violation('partial-errors-differ-from-full', case,
                              f'{fam} path={path}: partial {got[:3]} full-part {want_p[:3]}')
            else:
                res.count('partial:errors:agree' + ('_nonempty' if got else ''))
            if faulted:
                continue   # lax decoding of an invalid tree may drop nodes: only errors are compared
            # data
            res.case(env.h8((fam, strip_pos(sp), 'objects', form)))
            res.count('partial:objects:' + form)
            try:
                pobj = schema.to_objects(xmlschema.XMLResource(text), path=path, namespaces=nsmap, validation='lax')
            except xmlschema.XMLSchemaException as x:
                res.violation('partial-to_objects-raised', case, f'{path}: {x!r}'[:300])
                continue
            pobj = pobj[0] if isinstance(pobj, tuple) else pobj
            plist = pobj if isinstance(pobj, list) else [pobj]
            want_objs = [obj_sig(obj_at(full_obj, p)) for p in sel_paths]
            got_objs = [obj_sig(o) for o in plist]
            if want_objs != got_objs:
                res.violation('partial-objects-differ-from-full', case,
                              f'{fam} path={path}: selected {len(sel_paths)} nodes; partial {str(got_objs)[:200]} full-part {str(want_objs)[:200]}')
            else:
                res.count('partial:objects:agree')
    # (4) max_depth
    if not faulted:
        full_sig = obj_sig(full_obj)
        for k in (0, 1, 2, 3, 4):
            res.case(env.h8((fam, 'max_depth', k)))
            res.count('max_depth:runs')
            lim = schema.to_objects(xmlschema.XMLResource(text), max_depth=k, validation='lax')
            lim = lim[0] if isinstance(lim, tuple) else lim
            bad = compare_above_cut(obj_sig(lim), full_sig, k, 0)
            if bad:
                res.violation('max_depth-changes-content-above-the-cut', dict(case0, max_depth=k), f'{fam} max_depth={k}: {bad}')
            else:
                res.count('max_depth:agree')
    if len(res.samples) < 2:
        res.sample({'family': fam, 'elements': len(items), 'example_paths': [sp for _, _, sp in items[:4]]})


def path_of(items, ip):
    for _, ip2, sp in items:
        if ip2 == ip:
            return sp
    return None


def obj_at(o, ip):
    for i in ip:
        o = list(o)[i]
    return o


def compare_above_cut(lim, full, k, depth):
    """Every node present in the depth-limited tree equals the full tree's node in tag and attributes;
    nodes strictly above the cut (depth < k-1) also have all their children and values."""
    if lim is None or full is None:
        return None if lim == full else f'depth {depth}: {lim} vs {full}'
    if lim[0] != full[0] or lim[1] != full[1]:
        return f'depth {depth}: tag/attributes {lim[0]} {lim[1]} vs {full[0]} {full[1]}'
    if depth < k - 1:
        if len(lim[3]) != len(full[3]):
            return f'depth {depth} <{lim[0]}>: {len(lim[3])} children vs {len(full[3])}'
        if lim[2] != full[2] and not full[3]:
            return f'depth {depth} <{lim[0]}>: value {lim[2]} vs {full[2]}'
    if len(lim[3]) not in (0, len(full[3])):
        return f'depth {depth} <{lim[0]}>: partial children list {len(lim[3])} vs {len(full[3])}'
    for a, b in zip(lim[3], full[3]):
        r = compare_above_cut(a, b, k, depth + 1)
        if r:
            return r
    return None


def run_gen(spec, res):
    xmlschema = env.activate_repo()
    rec = Recorder()
    schemas = {}
    ALL = dict(D.FAMILIES, plain=D.EXTRA_FAMILIES['plain'])
    for fam in ALL:
        for v, cls in (('1.0', xmlschema.XMLSchema10), ('1.1', xmlschema.XMLSchema11)):
            schemas[fam, v] = cls(ALL[fam])
    rng = env.rng_for(PROPERTY, spec['tier'], spec['seed'], spec['gshard'])
    for d in range(spec['docs']):
        fam = rng.choice(('shop', 'tree', 'ctx', 'ctx', 'plain'))
        doc = D.GENERATORS[fam](rng)
        version = rng.choice(('1.0', '1.1'))
        schema = schemas[fam, version]
        prefixes = D.default_prefixes(fam, rng)
        text = D.render_doc(doc, fam, prefixes=prefixes)
        full_prefixes = dict(prefixes)
        nsmap = {p: ns for ns, p in prefixes.items()}
        nsmap['xsi'] = D.XSI
        if fam == 'plain':
            nsmap = {}      # nothing is declared anywhere: the caller's map is empty
        wild = [p for p, n in doc.walk() if n.meta.get('wild')] + \
            [p + (i,) for p, n in doc.walk() if n.meta.get('xsi_type') for i in range(len(n.children))]
        run_doc(res, xmlschema, rec, schema, fam, version, text, full_prefixes, nsmap, wild, rng, spec['tier'])
        # the same document in a "version 2" namespace: same paths, same prefixes, other URIs. Results must not
        # depend on what was looked up before in this process (selectors / lookups are cached process-wide).
        ns = D.FAMILY_NS[fam]
        if not ns:
            continue
        key2 = (fam, version, 'v2')
        if key2 not in schemas:
            schemas[key2] = type(schema)(D.FAMILIES[fam].replace(ns, ns + ':v2'))
        prefixes2 = {(k + ':v2' if k == ns else k): v for k, v in prefixes.items()}
        nsmap2 = {p: (u + ':v2' if u == ns else u) for p, u in nsmap.items()}
        res.count('twin_namespace:documents')
        run_doc(res, xmlschema, rec, schemas[key2], fam + ':v2', version, text.replace(ns, ns + ':v2'), prefixes2, nsmap2,
                wild, rng, spec['tier'])
        # one single-fault variant for the error comparison
        faults = [(p, k) for p, n in doc.walk() for k in D.faults_at(doc, p)]
        if faults:
            p, k = rng.choice(faults)
            r = D.apply_fault(doc, p, k, rng)
            if r is not None:
                t2 = D.render_doc(r[0], fam, prefixes=prefixes)
                wild2 = [q for q, n in r[0].walk() if n.meta.get('wild') or n.meta.get('bogus')] + \
                    [q + (i,) for q, n in r[0].walk() if n.meta.get('xsi_type') for i in range(len(n.children))]
                run_doc(res, xmlschema, rec, schema, fam, version, t2, full_prefixes, nsmap, wild2, rng, spec['tier'], faulted=True)
    res.count('recorder:hits', rec.hits)


def run_corpus(spec, res):
    xmlschema = env.activate_repo()
    from vk.gen import corpus as C
    rec = Recorder()
    for entry in C.valid_pairs():
        schema = C.schema_for(entry)
        if schema is None:
            continue
        try:
            resource = xmlschema.XMLResource(entry['xml'])
            rec.clear()
            errs = list(schema.iter_errors(resource))
        except xmlschema.XMLSchemaException:
            continue
        if errs:
            continue
        governing = dict(rec.map)
        root = resource.root
        n = 0
        for e in root.iter():
            if callable(e.tag) or id(e) not in governing:
                continue
            gov = governing[id(e)]
            if gov.parent is None and e is not root and gov.name not in [getattr(c, 'name', None) for c in ()]:
                pass
            from xmlschema.utils.etree import etree_getpath
            path = etree_getpath(e, root, relative=False)   # {uri}local steps, no prefixes needed
            n += 1
            res.case(env.h8(('corpus', entry['xml'], strip_pos(path))))
            res.count('corpus:lookups')
            try:
                got = schema.get_element(e.tag, path)
            except xmlschema.XMLSchemaException as x:
                res.count('corpus:lookup_raised:' + type(x).__name__)
                continue
            if got is None:
                res.count('corpus:lookup_none')     # e.g. matched through a wildcard
                continue
            if resolved(got) is not resolved(gov):
                # wildcard-matched global elements legitimately have no schema path; only flag when the
                # path lookup returns a *different declaration of the same name*
                res.violation('corpus:get_element-differs-from-governing-declaration',
                              {'corpus': entry['xml'], 'path': path},
                              f'{entry["xml"][-40:]} {path}: {got!r} vs governing {gov!r}')
            else:
                res.count('corpus:lookup_agree')
    res.count('recorder:hits', rec.hits)


# ---------------------------------------------------------------------------------------------
# identity constraints of ancestors under path-driven validation
LIB_NS = 'urn:vk:lib'
LIB_XSD = f'''<xs:schema xmlns:xs="http://www.w3.org/2001/XMLSchema" xmlns:l="{LIB_NS}" targetNamespace="{LIB_NS}"
    elementFormDefault="qualified">
  <xs:element name="lib">
    <xs:complexType><xs:sequence>
      <xs:element name="shelf" maxOccurs="unbounded">
        <xs:complexType><xs:sequence>
          <xs:element name="book" maxOccurs="unbounded">
            <xs:complexType><xs:sequence><xs:element name="title" type="xs:string"/>
              <xs:element name="copy" minOccurs="0" maxOccurs="unbounded"><xs:complexType><xs:attribute name="tag" type="xs:int"/></xs:complexType></xs:element>
            </xs:sequence>
            <xs:attribute name="code" type="xs:int" use="required"/><xs:attribute name="no" type="xs:int" use="required"/></xs:complexType>
            <xs:unique name="copyTag"><xs:selector xpath="l:copy"/><xs:field xpath="@tag"/></xs:unique>
          </xs:element>
        </xs:sequence></xs:complexType>
        <xs:key name="bookNo"><xs:selector xpath="l:book"/><xs:field xpath="@no"/></xs:key>
      </xs:element>
    </xs:sequence></xs:complexType>
    <xs:unique name="bookCode"><xs:selector xpath="l:shelf/l:book"/><xs:field xpath="@code"/></xs:unique>
    <xs:unique name="titleText"><xs:selector xpath=".//l:title"/><xs:field xpath="."/></xs:unique>
    <xs:unique name="copyAny"><xs:selector xpath="l:shelf/l:book/l:copy"/><xs:field xpath="@tag"/></xs:unique>
  </xs:element>
</xs:schema>'''


def gen_lib(rng):
    """A library of shelves / books / copies with all identity values distinct, then 0..2 seeded duplicates.
    Returns (text, dups) with dups = [(constraint, index path of the earlier holder of the value, of the later one)]."""
    shelves = []
    code = 100
    tag = 1000
    for s in range(rng.randint(2, 4)):
        books = []
        for b in range(rng.randint(1, 4)):
            code += 1
            copies = []
            for c in range(rng.choice((0, 0, 1, 2, 3))):
                tag += 1
                copies.append({'tag': tag})
            books.append({'code': code, 'no': b + 1, 'title': f'T{code}', 'copies': copies})
        shelves.append(books)
    flat = [(si, bi) for si, books in enumerate(shelves) for bi in range(len(books))]
    dups = []
    for _ in range(rng.choice((0, 1, 1, 2))):
        kind = rng.choice(('bookCode', 'bookCode', 'titleText', 'bookNo', 'copyAny', 'copyTag'))
        if kind in ('bookCode', 'titleText') and len(flat) >= 2:
            (s1, b1), (s2, b2) = sorted(rng.sample(flat, 2))
            field = 'code' if kind == 'bookCode' else 'title'
            if any(d[0] == kind for d in dups):
                continue
            shelves[s2][b2][field] = shelves[s1][b1][field]
            tail = (0,) if kind == 'titleText' else ()
            dups.append((kind, (s1, b1) + tail, (s2, b2) + tail))
        elif kind == 'bookNo':
            cand = [si for si, books in enumerate(shelves) if len(books) >= 2]
            if cand and not any(d[0] == kind for d in dups):
                si = rng.choice(cand)
                b1, b2 = sorted(rng.sample(range(len(shelves[si])), 2))
                shelves[si][b2]['no'] = shelves[si][b1]['no']
                dups.append((kind, (si, b1), (si, b2)))
        else:
            allc = [(si, bi, ci) for si, bi in flat for ci in range(len(shelves[si][bi]['copies']))]
            if kind == 'copyTag':
                allc = [x for x in allc if len(shelves[x[0]][x[1]]['copies']) >= 2]
            if len(allc) >= 2 and not any(d[0] in ('copyAny', 'copyTag') for d in dups):
                c1, c2 = sorted(rng.sample(allc, 2))
                if kind == 'copyTag':
                    c2 = (c1[0], c1[1], rng.choice([k for k in range(len(shelves[c1[0]][c1[1]]['copies'])) if k != c1[2]]))
                    c1, c2 = sorted((c1, c2))
                shelves[c2[0]][c2[1]]['copies'][c2[2]]['tag'] = shelves[c1[0]][c1[1]]['copies'][c1[2]]['tag']
                ip = lambda c: (c[0], c[1], 1 + c[2])
                dups.append(('copyAny', ip(c1), ip(c2)))
                if c1[:2] == c2[:2]:
                    dups.append(('copyTag', ip(c1), ip(c2)))
    out = [f'<l:lib xmlns:l="{LIB_NS}">']
    for books in shelves:
        out.append('<l:shelf>')
        for b in books:
            out.append(f'<l:book code="{b["code"]}" no="{b["no"]}"><l:title>{b["title"]}</l:title>')
            out.extend(f'<l:copy tag="{c["tag"]}"/>' for c in b['copies'])
            out.append('</l:book>')
        out.append('</l:shelf>')
    out.append('</l:lib>')
    return ''.join(out), dups, shelves


def run_ident(spec, res):
    """Path-driven validation with identity constraints declared on ancestors of the selected elements and on the selected
    elements themselves. A duplicate whose two holders both lie in the selected part must be reported there as in the full
    run; nothing may be reported that the full run does not report for that part."""
    xmlschema = env.activate_repo()
    rng = env.rng_for(PROPERTY, spec['tier'], spec['seed'], 'ident', spec['ishard'])
    nsmap = {'l': LIB_NS}
    for version, cls in (('1.0', xmlschema.XMLSchema10), ('1.1', xmlschema.XMLSchema11)):
        schema = cls(LIB_XSD)
        for d in range(spec['docs']):
            text, dups, shelves = gen_lib(rng)
            resource = xmlschema.XMLResource(text)
            idx = index_paths(resource.root)
            full = []
            for e in schema.iter_errors(resource):
                if 'duplicated value' in (e.reason or ''):
                    full.append((e.reason, idx.get(id(e.elem))))
                else:
                    res.inconclusive_case('lib document has an error that was not seeded', [e.reason])
            if len(full) != len(dups):
                res.violation('full-run-identity-errors-differ-from-seeded-duplicates', {'family': 'lib', 'version': version, 'doc': text},
                              f'seeded {dups} reported {full}')
                continue
            nsh = len(shelves)
            k = rng.randint(1, nsh)
            paths = [('/l:lib/l:shelf', [(s,) for s in range(nsh)]),
                     ('/l:lib/l:shelf/l:book', [(s, b) for s in range(nsh) for b in range(len(shelves[s]))]),
                     ('//l:book', [(s, b) for s in range(nsh) for b in range(len(shelves[s]))]),
                     ('/l:lib/l:shelf/l:book/l:title', [(s, b, 0) for s in range(nsh) for b in range(len(shelves[s]))]),
                     ('/l:lib/l:shelf/l:book/l:copy', [(s, b, 1 + c) for s in range(nsh) for b in range(len(shelves[s]))
                                                       for c in range(len(shelves[s][b]['copies']))]),
                     (f'/l:lib/l:shelf[{k}]/l:book', [(k - 1, b) for b in range(len(shelves[k - 1]))]),
                     (f'/l:lib/l:shelf[{k}]', [(k - 1,)])]
            for path, sel in paths:
                if not sel:
                    continue
                inside = lambda ip: any(ip[:len(p)] == p for p in sel)
                # a duplicate is within reach of the partial run when the element that declares the constraint is an
                # ancestor-or-self of... the selected elements or lies below them, and both holders are in the part
                # (a holder can carry two seeded duplicates: each is paired with the reported error of its own constraint)
                must = sorted((r, ip) for kind, first, later in dups for r, ip in full
                              if ip == later and f":{kind}'" in r and inside(first) and inside(later))
                may = sorted((r, ip) for r, ip in full if inside(ip))
                for mode in ('full', 'lazy_thin', 'lazy_kept'):
                    lazy = mode != 'full'
                    if lazy and path.startswith('//'):
                        continue   # refused on lazy resources
                    rkw = {'lazy': lazy, 'thin_lazy': mode == 'lazy_thin'} if lazy else {}
                    case = {'family': 'lib', 'version': version, 'doc': text, 'path': path, 'lazy': lazy, 'resource': rkw}
                    res.case(env.h8(('lib', strip_pos(path), 'ident', mode, tuple(sorted(d[0] for d in dups)))))
                    res.count('ident:runs')
                    try:
                        perrs = list(schema.iter_errors(xmlschema.XMLResource(text, **rkw), path=path, namespaces=nsmap))
                        pvalid = schema.is_valid(xmlschema.XMLResource(text, **rkw), path=path, namespaces=nsmap)
                    except xmlschema.XMLSchemaException as x:
                        res.violation('partial-iter_errors-raised', case, f'{path}: {x!r}'[:300])
                        continue
                    got = []
                    for e2 in perrs:
                        if lazy:
                            got.append((e2.reason, None))
                            continue
                        sel2 = eval_path(e2.root, e2.path, e2.namespaces or {}) if e2.root is not None and e2.path else []
                        got.append((e2.reason, index_paths(e2.root).get(id(sel2[0])) if len(sel2) == 1 else None))
                    if lazy:
                        must_c, may_c = [(r, None) for r, _ in must], [(r, None) for r, _ in may]
                    else:
                        must_c, may_c = must, may
                    missing = [m for m in must_c if got.count(m) < must_c.count(m)]
                    extra = [g for g in got if got.count(g) > may_c.count(g)]
                    head = lambda r: [(x.tag, sorted(x.attrib.items()), (x.text or '').strip()) for x in r.iterfind(path, nsmap)]
                    if (missing or extra) and lazy and '[' in path and \
                            head(xmlschema.XMLResource(text, **rkw)) != head(xmlschema.XMLResource(text)):
                        # the resource itself selects other elements than the path denotes: the validator is not the cause
                        res.violation('lazy-resource-selects-other-elements:positional-predicate-counts-only-siblings-still-in-memory',
                                      case, f'lib path={path} {rkw}: the resource yields '
                                      f'{len(head(xmlschema.XMLResource(text, **rkw)))} elements for a path that denotes {len(sel)}')
                    elif missing:
                        res.violation('partial-run-misses-identity-error-of-the-part', case,
                                      f'lib path={path} {mode}: missing {missing[:2]} got {got[:3]}')
                    elif extra:
                        res.violation('partial-run-reports-identity-error-the-full-run-does-not', case,
                                      f'lib path={path} {mode}: extra {extra[:2]} full-part {may_c[:3]}')
                    elif pvalid != (not perrs):
                        res.violation('partial-is_valid-differs-from-partial-iter_errors', case, f'lib path={path} {mode}')
                    else:
                        res.count('ident:agree' + ('_nonempty' if must_c else ''))
            if len(res.samples) < 2:
                res.sample({'family': 'lib', 'seeded_duplicates': [d[0] for d in dups], 'chars': len(text)})


# The cut made by a lazy resource: the chunks at depth N are looked up on the schema by the path of N steps under the root.
# Every level has a *local* declaration (xs:int content) and a same-named *global* one of another type: a chunk governed by
# anything but the declaration its path selects gives another verdict.
LAZYCUT_XSD = """<xs:schema xmlns:xs="http://www.w3.org/2001/XMLSchema">
<xs:element name="group" type="xs:string"/><xs:element name="item" type="xs:string"/><xs:element name="leaf" type="xs:boolean"/>
<xs:element name="root"><xs:complexType><xs:sequence>
 <xs:element name="group" maxOccurs="unbounded"><xs:complexType><xs:sequence>
  <xs:element name="item" maxOccurs="unbounded"><xs:complexType><xs:sequence>
   <xs:element name="leaf" type="xs:int" minOccurs="0" maxOccurs="unbounded"/>
   <xs:element name="only" type="xs:int" minOccurs="0"/>
  </xs:sequence><xs:attribute name="n" type="xs:int"/></xs:complexType></xs:element>
 </xs:sequence><xs:attribute name="g" type="xs:int"/></xs:complexType></xs:element>
</xs:sequence></xs:complexType></xs:element></xs:schema>"""


def run_lazycut(spec, res):
    xmlschema = env.activate_repo()
    rng = env.rng_for(PROPERTY, spec['tier'], spec['seed'], 'lazycut')
    for version, cls in (('1.0', xmlschema.XMLSchema10), ('1.1', xmlschema.XMLSchema11)):
        schema = cls(LAZYCUT_XSD)
        for d in range(spec['docs']):
            nfaults = rng.choice((0, 1, 1, 2))
            groups, slots = [], []
            for gi in range(rng.randint(1, 3)):
                items = []
                for ii in range(rng.randint(1, 3)):
                    leaves = [f'<leaf>{rng.randint(0, 9)}</leaf>' for _ in range(rng.randint(0, 3))]
                    if rng.random() < 0.3:
                        leaves.append('<only>1</only>')
                    items.append([f'<item n="{ii}">', leaves, '</item>'])
                    slots += [('leaf', gi, ii, k) for k in range(len(leaves))] + [('item', gi, ii, None)]
                groups.append([f'<group g="{gi}">', items, '</group>'])
                slots.append(('group', gi, None, None))
            for kind, gi, ii, k in rng.sample(slots, min(nfaults, len(slots))):
                if kind == 'leaf':
                    groups[gi][1][ii][1][k] = groups[gi][1][ii][1][k].replace('>', '>x', 1)     # not an xs:int
                elif kind == 'item':
                    groups[gi][1][ii][0] = groups[gi][1][ii][0].replace('n="', 'n="x')
                else:
                    groups[gi][0] = groups[gi][0].replace('g="', 'g="x')
            text = '<root>' + ''.join(g[0] + ''.join(i[0] + ''.join(i[1]) + i[2] for i in g[1]) + g[2] for g in groups) + '</root>'
            full = sorted(e.reason or '' for e in schema.iter_errors(text))
            for lazy in (1, 2, 3):
                for thin in (True, False):
                    res.evaluations += 1
                    case = {'family': 'lazycut', 'version': version, 'doc': text, 'resource': {'lazy': lazy, 'thin_lazy': thin}}
                    res.nontrivial.add(env.h8(('lazycut', lazy, thin, len(full), text)))
                    try:
                        got = sorted(e.reason or '' for e in schema.iter_errors(xmlschema.XMLResource(text, lazy=lazy, thin_lazy=thin)))
                        ok = schema.is_valid(xmlschema.XMLResource(text, lazy=lazy, thin_lazy=thin))
                    except xmlschema.XMLSchemaException as e:
                        res.violation(f'lazycut:raised:lazy={min(lazy, 2)}:{type(e).__name__}', case, f'{version} lazy={lazy} thin={thin}: {e!r:.200}')
                        continue
                    if got != full or ok != (not full):
                        res.violation(f'lazycut:errors-differ:lazy={"1" if lazy == 1 else ">=2"}', case,
                                      f'{version} lazy={lazy} thin={thin}: cut run {got[:3]} valid={ok}; full run {full[:3]}; doc {text[:200]}')
                    else:
                        res.count('lazycut:agree' + ('_nonempty' if full else ''))


def run_shard(spec, res):
    if spec['kind'] == 'lazycut':
        return run_lazycut(spec, res)
    if spec['kind'] == 'gen':
        run_gen(spec, res)
    elif spec['kind'] == 'ident':
        run_ident(spec, res)
    else:
        run_corpus(spec, res)


def finalize(res, tier):
    c = res.counters
    reasons = []
    if not c.get('recorder:hits'):
        reasons.append('recorder on XsdElement.raw_decode never fired')
    for k in ('lookup:agree', 'partial:objects:agree', 'partial:errors:agree_nonempty', 'max_depth:agree', 'ident:agree_nonempty', 'lazycut:agree_nonempty'):
        if not c.get(k):
            reasons.append(f'deciding tally {k} is empty')
    return {'inconclusive': reasons}


def replay(case):
    xmlschema = env.activate_repo()
    from vk.result import Result
    import random
    res = Result()
    if 'corpus' in case:
        run_corpus({}, res)
    elif case.get('family') == 'lazycut':
        cls = xmlschema.XMLSchema10 if case['version'] == '1.0' else xmlschema.XMLSchema11
        schema = cls(LAZYCUT_XSD)
        full = sorted(e.reason or '' for e in schema.iter_errors(case['doc']))
        part = sorted(e.reason or '' for e in schema.iter_errors(xmlschema.XMLResource(case['doc'], **case['resource'])))
        print('full run:', full)
        print('cut run:', case['resource'], part)
        return full != part
    elif case.get('family') == 'lib':
        cls = xmlschema.XMLSchema10 if case['version'] == '1.0' else xmlschema.XMLSchema11
        schema = cls(LIB_XSD)
        full = [e.reason for e in schema.iter_errors(case['doc'])]
        part = [e.reason for e in schema.iter_errors(xmlschema.XMLResource(case['doc'], **case.get('resource', {})),
                                                     path=case.get('path'), namespaces={'l': LIB_NS})]
        print('full run:', full)
        print('path run:', case.get('path'), part)
        return sorted(full) != sorted(part)
    else:
        rec = Recorder()
        cls = xmlschema.XMLSchema10 if case['version'] == '1.0' else xmlschema.XMLSchema11
        fam0 = case['family'].split(':')[0]
        xsd = dict(D.FAMILIES, **D.EXTRA_FAMILIES)[fam0]
        if case['family'].endswith(':v2'):
            xsd = xsd.replace(D.FAMILY_NS[fam0], D.FAMILY_NS[fam0] + ':v2')
        schema = cls(xsd)
        import re
        text = case['doc']
        prefixes = {}
        for p, ns in re.findall(r'xmlns:?(\w*)="([^"]+)"', text):
            prefixes.setdefault(ns, p)
        nsmap = {p: ns for ns, p in prefixes.items()}
        run_doc(res, xmlschema, rec, schema, case['family'], case['version'], text, prefixes, nsmap, [], random.Random(0), 'thorough',
                faulted=bool(list(schema.iter_errors(text))))
    for v in res.violations:
        print(v['mechanism'], v['detail'][:400])
    return bool(res.violations)
