#!/usr/bin/env python3
"""Run the repository's pinned suite (guard OFF) and compare with /root/.vp/BASELINE.json stable_pass."""
import json, os, subprocess, sys, tempfile
import xml.etree.ElementTree as ET
repo = sys.argv[1] if len(sys.argv) > 1 else '/repo'
b = json.load(open('/root/.vp/BASELINE.json'))
fd, junit = tempfile.mkstemp(suffix='.xml'); os.close(fd)
env = dict(os.environ); env.pop('XMLSCHEMA_VERIF', None)
subprocess.run(['/venv/bin/python', '-m', 'pytest', '-q', '-p', 'no:cacheprovider', '--timeout=900',
                '--continue-on-collection-errors', '--junitxml=' + junit], cwd=repo, env=env,
               stdout=subprocess.DEVNULL, stderr=subprocess.DEVNULL)
passed = set()
for tc in ET.parse(junit).iter('testcase'):
    if not any(c.tag in ('failure', 'error', 'skipped') for c in tc):
        passed.add(tc.get('classname') + '::' + tc.get('name'))
os.unlink(junit)
missing = sorted(set(b['stable_pass']) - passed)
print(f'passed={len(passed)} stable_pass={len(b["stable_pass"])} missing={len(missing)}')
for m in missing[:40]:
    print('  MISSING', m)
sys.exit(1 if missing else 0)
