#!/usr/bin/env python3
"""Regenerate MANIFEST.json from the check modules' own metadata (LEVEL, LEVEL_TEXT, ...)."""
import glob, importlib, json, os, sys
root = os.path.dirname(os.path.dirname(os.path.abspath(__file__)))
sys.path.insert(0, root)
props = [json.loads(l)['id'] for l in open(os.path.join(root, 'properties.jsonl')) if l.strip()]
checks, claimed = [], set()
for path in sorted(glob.glob(os.path.join(root, 'checks', 'c[0-9][0-9]_*.py'))):
    mod = importlib.import_module('checks.' + os.path.basename(path)[:-3])
    pid = mod.PROPERTY
    if getattr(mod, 'NOT_CLAIMED', None):
        continue
    claimed.add(pid)
    checks.append({
        'property_id': pid,
        'quick_cmd': f'./check {pid} --tier quick',
        'thorough_cmd': f'./check {pid} --tier thorough',
        'evidence_file': f'/verif/evidence/{pid}.json',
        'replay_cmd_template': f'./check {pid} --replay {{path}}',
        'engine': 'vk',
        'level_claimed': {'category': getattr(mod, 'LEVEL', 'exploration'),
                          'text': mod.LEVEL_TEXT, 'design_ref': f'DESIGN.md section 5, {pid}'},
        'level_note': mod.LEVEL_NOTE,
        'technique': mod.TECHNIQUE,
    })
pending = json.load(open(os.path.join(root, 'tools', 'not_applicable.json')))
na = [{'property_id': p, 'reason': pending.get(p, 'no check registered yet in this round; design in DESIGN.md section 5')}
      for p in props if p not in claimed]
manifest = {
    'version': 1,
    'setup_cmd': '/venv/bin/python -m pip install -q --no-index --find-links /opt/veriftools/wheels --target /verif/.deps icontract >/dev/null 2>&1; /venv/bin/python -c "import sys; sys.path.insert(0, \'/repo\'); import xmlschema, lxml.etree; print(xmlschema.__version__)"',
    'hooks': {'guard': 'XMLSCHEMA_VERIF', 'enable': 'export XMLSCHEMA_VERIF=1 (set by ./check for its workers; no source hook exists, observation uses sys.monitoring, sys.addaudithook and class-level wrappers installed from the harness)',
              'baseline_off_cmd': 'cd /repo && env -u XMLSCHEMA_VERIF /venv/bin/python -m pytest -ra -q -p no:cacheprovider --timeout=900 --continue-on-collection-errors',
              'source_commits': [], 'add_only': True},
    'engines': [{'name': 'vk', 'path': '/verif/vk', 'serves_properties': sorted(claimed),
                 'kind_free_text': 'runtime monitoring kit: sharded subprocess workers driving the real library from /repo, reference-model / differential / event-trace oracles, sys.monitoring probes, audit hooks'}],
    'checks': checks,
    'notes': 'Every check imports xmlschema from /repo\'s working tree in fresh worker processes (no build step, no cache). Exit 0 held, 1 VIOLATION, 2 INCONCLUSIVE. known_findings.json lists genuine defects (status known => KNOWN-FINDING line; status fixed => suppresses nothing).',
    'not_applicable': na,
}
json.dump(manifest, open(os.path.join(root, 'MANIFEST.json'), 'w'), indent=1)
print('claimed', sorted(claimed), 'not claimed', [x['property_id'] for x in na])
