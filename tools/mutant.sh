#!/bin/sh
# tools/mutant.sh <patch.diff> <ID> [<ID> ...]   (env TIER=quick|thorough, SUITE=1 to run the repo's suite first)
# Applies a patch to a scratch copy of /repo (never to /repo), runs the given checks against the copy and
# prints their verdict lines. Evidence/replays of these runs go to a scratch dir, not to /verif/evidence.
set -u
patch=$(realpath "$1"); shift
work=$(mktemp -d /tmp/vkmut.XXXXXX)
trap 'rm -rf "$work"' EXIT
rsync -a --exclude .git --exclude '__pycache__' /repo/ "$work/repo/"
( cd "$work/repo" && patch -p1 -s < "$patch" ) || { echo "PATCH-FAILED $patch"; exit 3; }
if [ "${SUITE:-0}" = 1 ]; then
  /verif/tools/baseline.py "$work/repo" | head -5
fi
for id in "$@"; do
  out=$(VERIF_REPO="$work/repo" VERIF_EVIDENCE_DIR="$work/ev" VERIF_REPLAY_DIR="$work/rp" /verif/check "$id" --tier "${TIER:-quick}" 2>&1)
  rc=$?
  echo "== $id rc=$rc $(echo "$out" | grep -c '^VIOLATION') violation lines"
  echo "$out" | grep '^VIOLATION' | head -3 | cut -c1-300
  echo "$out" | tail -1
done
