#!/bin/sh
# tools/seed_reverify.sh [ID ...]: re-confirm the saved independent breaks (/verif/seeded/<ID>) against /repo HEAD:
# the demonstration passes on a scratch copy, fails with the patch, and the property's check reports a violation.
# /repo is never modified. SUITE=1 also runs the pinned suite on the patched copy.
set -u
cd /verif
ids=${*:-$(ls seeded)}
for id in $ids; do
  work=$(mktemp -d /tmp/vkseed.XXXXXX)
  rsync -a --exclude .git --exclude '__pycache__' /repo/ "$work/repo/"
  d0=$(cd "$work" && SEED_REPO="$work/repo" /venv/bin/python /verif/seeded/$id/demo.py >/dev/null 2>&1; echo $?)
  if ! ( cd "$work/repo" && patch -p1 -s < /verif/seeded/$id/patch.diff ); then echo "$id PATCH-FAILED"; rm -rf "$work"; continue; fi
  d1=$(cd "$work" && SEED_REPO="$work/repo" /venv/bin/python /verif/seeded/$id/demo.py >/dev/null 2>&1; echo $?)
  suite=""
  [ "${SUITE:-0}" = 1 ] && suite=" suite:$(/verif/tools/baseline.py "$work/repo" | head -1)"
  # (meta.json may name the check that catches the change when it is not the property's own: C08-r4 is caught by C20)
  chk=$(python3 -c "import json,sys; print(json.load(open('/verif/seeded/$id/meta.json')).get('check') or '${id%%-*}')")
  out=$(VERIF_REPO="$work/repo" VERIF_EVIDENCE_DIR="$work/ev" VERIF_REPLAY_DIR="$work/rp" /verif/check "$chk" --tier quick 2>&1)
  rc=$?
  echo "$id demo_clean=$d0 demo_patched=$d1 check=$chk check_rc=$rc violations=$(echo "$out" | grep -c '^VIOLATION')$suite $(echo "$out" | grep '^VIOLATION' | head -1 | grep -o 'mechanism=[^ ]*' | cut -c1-100)"
  rm -rf "$work"
done
