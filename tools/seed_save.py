#!/usr/bin/env python3
"""tools/seed_save.py <ID> <caught_by> <needs...>: store a confirmed independent break under /verif/seeded/<ID>/."""
import json, os, shutil, sys
pid, caught = sys.argv[1], sys.argv[2]
ran = sys.argv[3] if len(sys.argv) > 3 else ''
root = os.environ.get('SEED_ROOT', '/tmp/seed')
suffix = os.environ.get('SEED_SUFFIX', '')
src = f'{root}/{pid}'
dst = f'/verif/seeded/{pid}{suffix}'
os.makedirs(dst, exist_ok=True)
for f in ('patch.diff', 'demo.py', 'NOTES.md'):
    shutil.copy(os.path.join(src, f), os.path.join(dst, f))
demo = os.path.join(dst, 'demo.py')
text = open(demo).read().replace(f"sys.path.insert(0, '{root}/{pid}')",
                                 f"sys.path.insert(0, __import__('os').environ.get('SEED_REPO', '/tmp/seed/{pid}'))")
open(demo, 'w').write(text)
notes = open(os.path.join(src, 'NOTES.md')).read()
meta = {
    'property': pid,
    'origin': 'written by an independent sub-agent that saw only the property text and a scratch worktree of /repo',
    'needs_to_manifest': notes[:1500],
    'confirmed': 'patch applies to /repo HEAD; pinned suite passes with it (tools/baseline.py on a scratch copy); demo.py exits 1 with the change and 0 without it',
    'caught_by': caught,
    'what_was_run': ran or f'tools/seed_verify.sh {pid} (scratch copy + VERIF_REPO; /repo itself never modified)',
}
json.dump(meta, open(os.path.join(dst, 'meta.json'), 'w'), indent=1)
print('saved', dst)
