#!/bin/sh
# tools/seed_verify.sh <ID> [check ids...]: confirm an independently written break and run our checks against it.
# Never touches /repo: works on the agent's worktree (/tmp/seed/<ID>) and on a scratch copy.
set -u
id=$1; shift
checks=${*:-$id}
wt=${SEED_ROOT:-/tmp/seed}/$id
[ -f "$wt/patch.diff" ] || { echo "no patch.diff in $wt"; exit 3; }
work=$(mktemp -d /tmp/vkseed.XXXXXX)
trap 'rm -rf "$work"' EXIT
# 1. the worktree must contain exactly the patch
git -C "$wt" checkout -q -- xmlschema
echo "demo without change: $(cd "$wt" && SEED_REPO="$wt" PYTHONPATH="$wt" /venv/bin/python demo.py >/dev/null 2>&1; echo rc=$?)"
git -C "$wt" apply "$wt/patch.diff" || { echo "PATCH-DOES-NOT-APPLY"; exit 3; }
echo "demo with change:    $(cd "$wt" && SEED_REPO="$wt" PYTHONPATH="$wt" /venv/bin/python demo.py >/dev/null 2>&1; echo rc=$?)"
git -C "$wt" status --short | grep -v '^??' | head -5
# 2. pinned suite on a scratch copy with the patch
rsync -a --exclude .git --exclude '__pycache__' /repo/ "$work/repo/"
( cd "$work/repo" && patch -p1 -s < "$wt/patch.diff" ) || { echo "PATCH-FAILED on scratch copy"; exit 3; }
echo "suite with change:   $(/verif/tools/baseline.py "$work/repo" | head -3 | tr '\n' ' ')"
# 3. our checks against the patched copy
for c in $checks; do
  for tier in quick ${THOROUGH:+thorough}; do
    out=$(VERIF_REPO="$work/repo" VERIF_EVIDENCE_DIR="$work/ev" VERIF_REPLAY_DIR="$work/rp" /verif/check "$c" --tier $tier 2>&1)
    rc=$?
    echo "== $c $tier rc=$rc $(echo "$out" | grep -c '^VIOLATION') violation lines; $(echo "$out" | grep -c '^INCONCLUSIVE') inconclusive"
    echo "$out" | grep '^VIOLATION' | head -2 | cut -c1-330
    [ $rc -ne 0 ] && break
  done
done
