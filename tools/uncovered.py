#!/usr/bin/env python3
"""tools/uncovered.py <ID> [file-substring]: source of the anchored statement lines that the last run of a check never
executed (from evidence/<ID>.json). Used to find input classes the generators do not produce."""
import json, sys
pid = sys.argv[1]
flt = sys.argv[2] if len(sys.argv) > 2 else ''
e = json.load(open(f'/verif/evidence/{pid}.json'))
miss = e['coverage'].get('anchored_lines_not_executed', {})
for rel, spans in miss.items():
    if flt not in rel or not spans:
        continue
    src = open('/repo/' + rel).read().split('\n')
    print(f'===== {rel}  (hit {e["coverage"]["anchored_lines_hit"].get(rel)})')
    for sp in spans.split(','):
        a, _, b = sp.partition('-')
        a, b = int(a), int(b or a)
        for ln in range(a, b + 1):
            print(f'{ln:5d}  {src[ln - 1]}')
        print('      ...')
