"""Process environment for checks: which tree is observed, seeds, scratch dirs."""
import os
import sys
import random
import hashlib

VERIF_DIR = os.path.dirname(os.path.dirname(os.path.abspath(__file__)))
VERIF_REPO = os.path.realpath(os.environ.get('VERIF_REPO', '/repo'))
PYTHON = os.environ.get('VERIF_PYTHON', '/venv/bin/python')
DEPS_DIR = os.path.join(VERIF_DIR, '.deps')
GUARD = 'XMLSCHEMA_VERIF'


def seed_value():
    try:
        return int(os.environ.get('VERIF_SEED', '0'))
    except ValueError:
        return int(hashlib.sha1(os.environ['VERIF_SEED'].encode()).hexdigest()[:8], 16)


def rng_for(*parts):
    """All randomness flows from (property, tier, VERIF_SEED, shard, purpose)."""
    return random.Random(':'.join(str(p) for p in parts))


def activate_repo():
    """Put the observed tree first on sys.path and make sure that is what gets imported."""
    if VERIF_REPO not in sys.path[:1]:
        sys.path.insert(0, VERIF_REPO)
    if os.path.isdir(DEPS_DIR) and DEPS_DIR not in sys.path:
        sys.path.append(DEPS_DIR)
    os.environ[GUARD] = '1'
    import xmlschema
    where = os.path.realpath(xmlschema.__file__)
    if not where.startswith(VERIF_REPO + os.sep):
        raise SystemExit(f"xmlschema imported from {where}, expected under {VERIF_REPO}")
    return xmlschema


def h8(obj):
    if not isinstance(obj, (bytes, str)):
        obj = repr(obj)
    if isinstance(obj, str):
        obj = obj.encode('utf-8', 'surrogatepass')
    return hashlib.blake2b(obj, digest_size=8).hexdigest()
