"""The repository's own test corpus as realistic input: (schema, version, instance) triples.

Read from tests/test_cases/testfiles (the index the repository's own test factory uses).
"""
import os
import shlex

from vk import env


def cases_dir():
    return os.path.join(env.VERIF_REPO, 'tests', 'test_cases')


def _parse_index():
    path = os.path.join(cases_dir(), 'testfiles')
    out = []
    with open(path, encoding='utf-8') as f:
        content = f.read().replace('\\\n', ' ')
    for line in content.splitlines():
        line = line.split('#', 1)[0].strip() if not line.lstrip().startswith('#') else ''
        if not line:
            continue
        try:
            parts = shlex.split(line)
        except ValueError:
            continue
        rel = parts[0]
        opts = {'version': '1.0', 'errors': 0, 'locations': []}
        i = 1
        while i < len(parts):
            p = parts[i]
            if p.startswith('--version='):
                opts['version'] = p.split('=', 1)[1]
            elif p == '--version':
                i += 1
                opts['version'] = parts[i]
            elif p.startswith('--errors='):
                opts['errors'] = int(p.split('=', 1)[1])
            elif p == '--errors':
                i += 1
                opts['errors'] = int(parts[i])
            elif p == '-L':
                opts['locations'].append((parts[i + 1], parts[i + 2]))
                i += 2
            elif p in ('--defuse', '--timeout'):
                i += 1
            i += 1
        out.append((rel, opts))
    return out


def instances():
    """[(xml_path, schema_path_or_None, version, expected_errors, locations)] for index entries that are XML."""
    out = []
    for rel, opts in _parse_index():
        if not rel.endswith('.xml'):
            continue
        path = os.path.join(cases_dir(), rel)
        if not os.path.isfile(path):
            continue
        locs = []
        for ns, loc in opts['locations']:
            locs.append((ns, os.path.join(os.path.dirname(path), loc)))
        out.append({'xml': path, 'version': opts['version'], 'errors': opts['errors'], 'locations': locs})
    return out


def schemas():
    """[(xsd_path, version, expected_errors)] for index entries that are schemas."""
    out = []
    for rel, opts in _parse_index():
        if rel.endswith('.xsd'):
            path = os.path.join(cases_dir(), rel)
            if os.path.isfile(path):
                out.append({'xsd': path, 'version': opts['version'], 'errors': opts['errors']})
    return out


_schema_cache = {}


def schema_for(entry):
    """Build (cached per process) the schema that governs a corpus instance; None if not possible."""
    xmlschema = env.activate_repo()
    key = (entry['xml'], entry['version'])
    if key in _schema_cache:
        return _schema_cache[key]
    cls = xmlschema.XMLSchema11 if entry['version'] == '1.1' else xmlschema.XMLSchema10
    schema = None
    try:
        if entry['locations']:
            ns, loc = entry['locations'][0]
            schema = cls(loc)
        else:
            url = xmlschema.fetch_schema(entry['xml'])
            schema = cls(url)
    except Exception:
        schema = None
    _schema_cache[key] = schema
    return schema


def valid_pairs(max_bytes=200000):
    """Corpus instances that the index declares valid (0 errors) and small enough to fuzz."""
    return [e for e in instances() if e['errors'] == 0 and os.path.getsize(e['xml']) <= max_bytes]
