"""Document families: hand-written feature-rich schemas with seeded valid-instance generators
and single-node fault injectors whose damaged node is known by construction.

Documents are built as trees of `N` nodes and rendered to text by this module (never through
ElementTree serialisation), with explicit xmlns declarations.
"""
import copy

XSI = 'http://www.w3.org/2001/XMLSchema-instance'
XS = 'http://www.w3.org/2001/XMLSchema'
SHOP = 'urn:vk:shop'
EXT = 'urn:vk:ext'
TREE = 'urn:vk:tree'
CTX = 'urn:vk:ctx'
POLY = 'urn:vk:poly'
FX = 'urn:vk:fx'
UN = 'urn:vk:un'
MQ = 'urn:vk:mq'
FLAT = 'urn:vk:flat'


class N:
    __slots__ = ('ns', 'name', 'attrs', 'text', 'children', 'tail', 'meta')

    def __init__(self, ns, name, attrs=None, text=None, children=None, meta=None):
        self.ns = ns
        self.name = name
        self.attrs = list(attrs or [])      # [(ns, local, value)]
        self.text = text
        self.children = list(children or [])
        self.tail = None
        self.meta = dict(meta or {})

    def walk(self, path=()):
        yield path, self
        for i, c in enumerate(self.children):
            yield from c.walk(path + (i,))

    def at(self, path):
        n = self
        for i in path:
            n = n.children[i]
        return n

    def count(self):
        return 1 + sum(c.count() for c in self.children)


def esc(s):
    return s.replace('&', '&amp;').replace('<', '&lt;').replace('>', '&gt;')


def esc_attr(s):
    return esc(s).replace('"', '&quot;').replace('\n', '&#10;').replace('\t', '&#9;')


def render(root, prefixes=None, decl=True, extra_root_attrs='', rebinding=False):
    """Serialise with a fixed prefix map declared on the root. prefixes: {ns: prefix or ''}."""
    prefixes = dict(prefixes or {})
    used = set()
    for _, n in root.walk():
        used.add(n.ns)
        for a in n.attrs:
            if a[0]:
                used.add(a[0])
    auto = 0
    for ns in sorted(used):
        if ns and ns not in prefixes:
            if ns == XSI:
                prefixes[ns] = 'xsi'
            else:
                auto += 1
                prefixes[ns] = f'ns{auto}'

    def qn(ns, local, is_attr=False):
        if not ns:
            return local
        p = prefixes[ns]
        if not p and is_attr:
            raise ValueError('attribute in default namespace')
        return f'{p}:{local}' if p else local

    def rec_rebinding(n, top, inherited):
        """Element names unprefixed: the default namespace is re-bound wherever the namespace changes (also to '')."""
        s = '<' + n.name
        if top:
            for ns, p in sorted(prefixes.items()):
                if p and (ns in used or ns in (XSI,)):
                    s += f' xmlns:{p}="{ns}"'
            s += extra_root_attrs
        if n.ns != inherited:
            s += f' xmlns="{n.ns}"'
        for ans, al, av in n.attrs:
            s += f' {qn(ans, al, True)}="{esc_attr(av)}"'
        if not n.children and n.text is None:
            return s + '/>'
        s += '>'
        if n.text is not None:
            s += esc(n.text)
        for c in n.children:
            s += rec_rebinding(c, False, n.ns)
            if c.tail:
                s += esc(c.tail)
        return s + '</' + n.name + '>'

    if rebinding:
        for ns in list(prefixes):
            if not prefixes[ns]:
                auto += 1
                prefixes[ns] = f'd{auto}'      # attributes and QName values still need a prefix
        out = rec_rebinding(root, True, '')
        return ('<?xml version="1.0" encoding="UTF-8"?>\n' if decl else '') + out

    def rec(n, top):
        s = '<' + qn(n.ns, n.name)
        if top:
            for ns, p in sorted(prefixes.items()):
                if ns in used or ns in (XSI,):
                    s += f' xmlns:{p}="{ns}"' if p else f' xmlns="{ns}"'
            s += extra_root_attrs
        for ans, al, av in n.attrs:
            s += f' {qn(ans, al, True)}="{esc_attr(av)}"'
        if not n.children and n.text is None:
            return s + '/>'
        s += '>'
        if n.text is not None:
            s += esc(n.text)
        for c in n.children:
            s += rec(c, False)
            if c.tail:
                s += esc(c.tail)
        return s + '</' + qn(n.ns, n.name) + '>'

    out = rec(root, True)
    return ('<?xml version="1.0" encoding="UTF-8"?>\n' if decl else '') + out


# ---------------------------------------------------------------------------------------------
SHOP_XSD = f'''<?xml version="1.0" encoding="UTF-8"?>
<xs:schema xmlns:xs="{XS}" targetNamespace="{SHOP}" xmlns:s="{SHOP}" elementFormDefault="qualified">
  <xs:simpleType name="Sku"><xs:restriction base="xs:string"><xs:pattern value="[A-Z]{{2}}[0-9]{{3}}"/></xs:restriction></xs:simpleType>
  <xs:simpleType name="Qty"><xs:restriction base="xs:int"><xs:minInclusive value="1"/><xs:maxInclusive value="99"/></xs:restriction></xs:simpleType>
  <xs:simpleType name="Size"><xs:restriction base="xs:token"><xs:enumeration value="S"/><xs:enumeration value="M"/><xs:enumeration value="L"/></xs:restriction></xs:simpleType>
  <xs:simpleType name="Tags"><xs:list itemType="xs:NMTOKEN"/></xs:simpleType>
  <xs:simpleType name="Price"><xs:restriction base="xs:decimal"><xs:fractionDigits value="2"/><xs:minInclusive value="0"/></xs:restriction></xs:simpleType>
  <xs:simpleType name="SizeOrNum"><xs:union memberTypes="s:Size xs:int"/></xs:simpleType>
  <xs:complexType name="Party">
    <xs:sequence>
      <xs:element name="name" type="xs:string"/>
      <xs:element name="email" type="xs:string" minOccurs="0"/>
    </xs:sequence>
    <xs:attribute name="pid" type="xs:ID" use="required"/>
  </xs:complexType>
  <xs:complexType name="Company">
    <xs:complexContent><xs:extension base="s:Party">
      <xs:sequence><xs:element name="vat" type="xs:string"/></xs:sequence>
      <xs:attribute name="country" type="xs:string" default="IT"/>
    </xs:extension></xs:complexContent>
  </xs:complexType>
  <xs:element name="note" type="xs:string"/>
  <xs:element name="warning" type="xs:string" substitutionGroup="s:note"/>
  <xs:complexType name="Product">
    <xs:sequence>
      <xs:element name="title" type="xs:string"/>
      <xs:element name="price" type="s:Price"/>
      <xs:element name="size" type="s:SizeOrNum" minOccurs="0"/>
      <xs:element name="tags" type="s:Tags" minOccurs="0"/>
      <xs:element name="released" type="xs:date" minOccurs="0" nillable="true"/>
      <xs:element ref="s:note" minOccurs="0" maxOccurs="unbounded"/>
    </xs:sequence>
    <xs:attribute name="sku" type="s:Sku" use="required"/>
    <xs:attribute name="active" type="xs:boolean" default="true"/>
    <xs:attribute name="currency" type="xs:string" fixed="EUR"/>
  </xs:complexType>
  <xs:complexType name="Line">
    <xs:sequence>
      <xs:element name="qty" type="s:Qty"/>
      <xs:choice minOccurs="0">
        <xs:element name="gift" type="xs:boolean"/>
        <xs:element name="discount" type="xs:decimal"/>
      </xs:choice>
    </xs:sequence>
    <xs:attribute name="ref" type="s:Sku" use="required"/>
  </xs:complexType>
  <xs:complexType name="Comment" mixed="true">
    <xs:sequence><xs:element name="b" type="xs:string" minOccurs="0" maxOccurs="unbounded"/></xs:sequence>
  </xs:complexType>
  <xs:complexType name="Order">
    <xs:sequence>
      <xs:element name="buyer" type="s:Party"/>
      <xs:element name="line" type="s:Line" maxOccurs="unbounded"/>
      <xs:element name="comment" type="s:Comment" minOccurs="0"/>
      <xs:any namespace="##other" processContents="lax" minOccurs="0" maxOccurs="unbounded"/>
    </xs:sequence>
    <xs:attribute name="oid" type="xs:int" use="required"/>
    <xs:attribute name="contact" type="xs:IDREF"/>
    <xs:anyAttribute namespace="##other" processContents="lax"/>
  </xs:complexType>
  <xs:element name="shop">
    <xs:complexType>
      <xs:sequence>
        <xs:element name="product" type="s:Product" maxOccurs="unbounded"/>
        <xs:element name="order" type="s:Order" minOccurs="0" maxOccurs="unbounded"/>
      </xs:sequence>
      <xs:attribute name="version" type="xs:decimal"/>
    </xs:complexType>
    <xs:key name="skuKey"><xs:selector xpath="s:product"/><xs:field xpath="@sku"/></xs:key>
    <xs:keyref name="lineRef" refer="s:skuKey"><xs:selector xpath="s:order/s:line"/><xs:field xpath="@ref"/></xs:keyref>
    <xs:unique name="oidUnique"><xs:selector xpath="s:order"/><xs:field xpath="@oid"/></xs:unique>
    <xs:unique name="vatUnique"><xs:selector xpath="s:order/s:buyer/s:vat"/><xs:field xpath="."/></xs:unique>
  </xs:element>
</xs:schema>
'''

TREE_XSD = f'''<?xml version="1.0" encoding="UTF-8"?>
<xs:schema xmlns:xs="{XS}" targetNamespace="{TREE}" xmlns:t="{TREE}" elementFormDefault="qualified">
  <xs:complexType name="Branch">
    <xs:sequence>
      <xs:element name="label" type="xs:token" minOccurs="0"/>
      <xs:choice minOccurs="0" maxOccurs="unbounded">
        <xs:element ref="t:branch"/>
        <xs:element name="leaf" type="t:Leaf"/>
      </xs:choice>
    </xs:sequence>
    <xs:attribute name="name" type="xs:NCName" use="required"/>
  </xs:complexType>
  <xs:complexType name="Leaf">
    <xs:simpleContent><xs:extension base="xs:int">
      <xs:attribute name="k" type="xs:decimal" use="required"/>
      <xs:attribute name="unit" type="xs:string" default="m"/>
    </xs:extension></xs:simpleContent>
  </xs:complexType>
  <xs:element name="branch" type="t:Branch">
    <xs:unique name="leafK"><xs:selector xpath="t:leaf"/><xs:field xpath="@k"/></xs:unique>
  </xs:element>
  <xs:element name="tree">
    <xs:complexType>
      <xs:sequence><xs:element ref="t:branch" maxOccurs="unbounded"/></xs:sequence>
    </xs:complexType>
    <xs:key name="topName"><xs:selector xpath="t:branch"/><xs:field xpath="@name"/></xs:key>
  </xs:element>
</xs:schema>
'''

CTX_XSD = f'''<?xml version="1.0" encoding="UTF-8"?>
<xs:schema xmlns:xs="{XS}" targetNamespace="{CTX}" xmlns:c="{CTX}" elementFormDefault="qualified">
  <xs:element name="item" type="xs:date"/>
  <xs:element name="alt" type="xs:date" substitutionGroup="c:item"/>
  <xs:complexType name="A">
    <xs:sequence>
      <xs:element name="item" type="xs:int" maxOccurs="unbounded"/>
      <xs:element name="sub" minOccurs="0">
        <xs:complexType><xs:sequence><xs:element name="item" type="xs:boolean"/></xs:sequence></xs:complexType>
      </xs:element>
    </xs:sequence>
  </xs:complexType>
  <xs:complexType name="B">
    <xs:sequence>
      <xs:element name="item" type="xs:string"/>
      <xs:element name="a" type="c:A" minOccurs="0"/>
    </xs:sequence>
    <xs:attribute name="n" type="xs:int"/>
  </xs:complexType>
  <xs:element name="ctx">
    <xs:complexType>
      <xs:sequence>
        <xs:element name="a" type="c:A"/>
        <xs:element name="b" type="c:B" maxOccurs="unbounded"/>
        <xs:element ref="c:item" minOccurs="0" maxOccurs="unbounded"/>
      </xs:sequence>
    </xs:complexType>
  </xs:element>
</xs:schema>
'''

POLY_XSD = f'''<?xml version="1.0" encoding="UTF-8"?>
<xs:schema xmlns:xs="{XS}" targetNamespace="{POLY}" xmlns:p="{POLY}" elementFormDefault="qualified">
  <xs:complexType name="Base">
    <xs:sequence><xs:element name="title" type="xs:string"/></xs:sequence>
  </xs:complexType>
  <xs:complexType name="Ext">
    <xs:complexContent><xs:extension base="p:Base">
      <xs:sequence>
        <xs:element name="entry" maxOccurs="unbounded">
          <xs:complexType><xs:attribute name="id" type="xs:int" use="required"/></xs:complexType>
        </xs:element>
        <xs:element name="use" minOccurs="0" maxOccurs="unbounded">
          <xs:complexType><xs:attribute name="ref" type="xs:int" use="required"/></xs:complexType>
        </xs:element>
      </xs:sequence>
    </xs:extension></xs:complexContent>
  </xs:complexType>
  <xs:element name="slot" type="p:Base"/>
  <xs:element name="poly">
    <xs:complexType>
      <xs:sequence>
        <xs:element name="part" type="p:Base" maxOccurs="unbounded">
          <xs:key name="entryKey"><xs:selector xpath="p:entry"/><xs:field xpath="@id"/></xs:key>
          <xs:keyref name="useRef" refer="p:entryKey"><xs:selector xpath="p:use"/><xs:field xpath="@ref"/></xs:keyref>
        </xs:element>
        <!-- the same declaration outside (loose) and inside (shelf) the scope of a constraint -->
        <xs:element ref="p:slot" minOccurs="0" maxOccurs="unbounded"/>
        <xs:element name="shelf" minOccurs="0" maxOccurs="unbounded">
          <xs:complexType><xs:sequence><xs:element ref="p:slot" maxOccurs="unbounded"/></xs:sequence></xs:complexType>
          <xs:unique name="shelfEntries"><xs:selector xpath=".//p:entry"/><xs:field xpath="@id"/></xs:unique>
        </xs:element>
      </xs:sequence>
    </xs:complexType>
  </xs:element>
</xs:schema>
'''

FAMILIES = {'shop': SHOP_XSD, 'tree': TREE_XSD, 'ctx': CTX_XSD}
FAMILY_NS = {'shop': SHOP, 'tree': TREE, 'ctx': CTX, 'poly': POLY, 'fx': FX, 'un': UN, 'plain': '', 'mixq': MQ, 'flat': FLAT}
# families with special purposes (not part of the shared rotation): xsi:type-dependent identity constraints
FX_XSD = f'''<?xml version="1.0" encoding="UTF-8"?>
<xs:schema xmlns:xs="{XS}" targetNamespace="{FX}" xmlns:f="{FX}" elementFormDefault="qualified">
  <!-- fixed values of pattern-restricted unions: comparing the value with the fixed one decodes both -->
  <xs:simpleType name="FU1"><xs:restriction><xs:simpleType><xs:union memberTypes="xs:int xs:NCName"/></xs:simpleType>
    <xs:pattern value="[0-9 ]+"/></xs:restriction></xs:simpleType>
  <xs:simpleType name="FU2"><xs:restriction><xs:simpleType><xs:union memberTypes="xs:int xs:token"/></xs:simpleType>
    <xs:pattern value="[a-z1 ]+"/></xs:restriction></xs:simpleType>
  <xs:element name="fx">
    <xs:complexType>
      <xs:sequence>
        <xs:element name="d" type="xs:decimal" fixed="1.0" minOccurs="0" maxOccurs="unbounded"/>
        <xs:element name="s" type="xs:string" fixed="a b" minOccurs="0" maxOccurs="unbounded"/>
        <xs:element name="n" type="xs:decimal" minOccurs="0" maxOccurs="unbounded"/>
        <xs:element name="q" type="xs:positiveInteger" default="1" minOccurs="0" maxOccurs="unbounded"/>
        <xs:element name="mx" fixed="abc" minOccurs="0" maxOccurs="unbounded">
          <xs:complexType mixed="true"><xs:sequence><xs:element name="b" type="xs:string" minOccurs="0"/></xs:sequence></xs:complexType>
        </xs:element>
        <xs:element name="u1" type="f:FU1" fixed="7" minOccurs="0" maxOccurs="unbounded"/>
        <xs:element name="u2" type="f:FU2" fixed="1" minOccurs="0" maxOccurs="unbounded"/>
      </xs:sequence>
      <xs:attribute name="k" type="xs:decimal" fixed="2.50"/>
    </xs:complexType>
  </xs:element>
</xs:schema>
'''

# unions, restricted unions with patterns, lists and unions of lists: several union-typed values per document, so
# that whatever one value leaves behind in a decode / encode call meets the next value
UN_XSD = f'''<?xml version="1.0" encoding="UTF-8"?>
<xs:schema xmlns:xs="{XS}" targetNamespace="{UN}" xmlns:u="{UN}" elementFormDefault="qualified">
  <xs:simpleType name="U"><xs:union memberTypes="xs:int xs:NCName"/></xs:simpleType>
  <xs:simpleType name="Code"><xs:restriction base="u:U"><xs:pattern value="[a-z]+[0-9]*"/></xs:restriction></xs:simpleType>
  <xs:simpleType name="Ref"><xs:restriction base="u:U"><xs:pattern value="[A-Z]{{2}}[0-9]+|[0-9]{{3}}"/></xs:restriction></xs:simpleType>
  <xs:simpleType name="IntList"><xs:list itemType="xs:int"/></xs:simpleType>
  <xs:simpleType name="Short"><xs:restriction base="u:IntList"><xs:maxLength value="3"/></xs:restriction></xs:simpleType>
  <xs:simpleType name="UL"><xs:union memberTypes="u:Short xs:date"/></xs:simpleType>
  <xs:simpleType name="V"><xs:union memberTypes="xs:int xs:string"/></xs:simpleType>
  <xs:simpleType name="W"><xs:union memberTypes="xs:int xs:date"/></xs:simpleType>
  <xs:simpleType name="Wp"><xs:restriction base="u:W"><xs:pattern value="[0-9]+|[0-9]{{4}}-[0-9]{{2}}-[0-9]{{2}}"/></xs:restriction></xs:simpleType>
  <xs:simpleType name="Tok"><xs:restriction base="xs:token"><xs:pattern value="[a-z]( [a-z])*"/></xs:restriction></xs:simpleType>
  <xs:element name="un">
    <xs:complexType>
      <xs:sequence>
        <xs:element name="item" maxOccurs="unbounded">
          <xs:complexType>
            <xs:sequence>
              <xs:element name="code" type="u:Code"/>
              <xs:element name="ref" type="u:Ref" minOccurs="0"/>
              <xs:element name="size" type="u:U" minOccurs="0"/>
              <xs:element name="ul" type="u:UL" minOccurs="0"/>
              <xs:element name="tok" type="u:Tok" minOccurs="0"/>
              <xs:element name="w" type="u:Wp" minOccurs="0"/>
              <xs:element name="v" type="u:V" minOccurs="0" maxOccurs="unbounded"/>
              <xs:element name="nums" type="u:IntList" minOccurs="0" maxOccurs="unbounded"/>
            </xs:sequence>
            <xs:attribute name="a" type="u:Code"/>
            <xs:attribute name="b" type="u:U"/>
          </xs:complexType>
        </xs:element>
        <xs:element name="extra" minOccurs="0">
          <xs:complexType><xs:sequence>
            <xs:any namespace="##targetNamespace" processContents="strict" minOccurs="0"/>
          </xs:sequence></xs:complexType>
        </xs:element>
      </xs:sequence>
    </xs:complexType>
  </xs:element>
  <!-- global elements that only a wildcard can admit -->
  <xs:element name="vals" type="u:IntList"/>
  <xs:element name="label" type="xs:token"/>
</xs:schema>
'''

# no target namespace, the schema document written with XSD as its default namespace, instances without any
# namespace declaration: every map of prefixes involved is empty
PLAIN_XSD = f'''<?xml version="1.0" encoding="UTF-8"?>
<schema xmlns="{XS}">
  <element name="plain">
    <complexType>
      <sequence>
        <element name="item" maxOccurs="unbounded">
          <complexType>
            <sequence>
              <element name="name" type="string"/>
              <element name="qty" type="positiveInteger" minOccurs="0"/>
              <element name="part" minOccurs="0" maxOccurs="unbounded">
                <complexType>
                  <sequence><element name="name" type="int"/></sequence>
                  <attribute name="k" type="int"/>
                </complexType>
              </element>
            </sequence>
            <attribute name="id" type="int" use="required"/>
            <attribute name="y" type="gYear"/>
          </complexType>
        </element>
        <element name="name" type="date" minOccurs="0"/>
      </sequence>
    </complexType>
    <unique name="years"><selector xpath="item"/><field xpath="@y"/></unique>
  </element>
</schema>
'''

# local elements unqualified, global ones qualified: the element namespace alternates between the target namespace
# and no namespace along a path
MQ_XSD = f'''<?xml version="1.0" encoding="UTF-8"?>
<xs:schema xmlns:xs="{XS}" targetNamespace="{MQ}" xmlns:q="{MQ}">
  <xs:element name="tag" type="xs:NCName"/>
  <xs:element name="box">
    <xs:complexType>
      <xs:sequence>
        <xs:element name="label" type="xs:string"/>
        <xs:element name="size" type="xs:int" minOccurs="0"/>
        <xs:element name="inner" minOccurs="0" maxOccurs="unbounded">
          <xs:complexType>
            <xs:sequence>
              <xs:element ref="q:tag" maxOccurs="unbounded"/>
              <xs:element name="note" type="xs:string" minOccurs="0"/>
            </xs:sequence>
            <xs:attribute name="n" type="xs:int"/>
          </xs:complexType>
        </xs:element>
        <xs:element ref="q:tag" minOccurs="0"/>
      </xs:sequence>
    </xs:complexType>
  </xs:element>
</xs:schema>
'''

# records that are leaf elements (attributes only) with a key and a keyref on the root
FLAT_XSD = f'''<?xml version="1.0" encoding="UTF-8"?>
<xs:schema xmlns:xs="{XS}" targetNamespace="{FLAT}" xmlns:r="{FLAT}" elementFormDefault="qualified">
  <xs:element name="flat">
    <xs:complexType>
      <xs:sequence>
        <xs:element name="rec" minOccurs="0" maxOccurs="unbounded">
          <xs:complexType>
            <xs:attribute name="id" type="xs:int" use="required"/>
            <xs:attribute name="next" type="xs:int"/>
            <xs:attribute name="tag" type="xs:NCName"/>
          </xs:complexType>
        </xs:element>
      </xs:sequence>
    </xs:complexType>
    <xs:key name="recId"><xs:selector xpath="r:rec"/><xs:field xpath="@id"/></xs:key>
    <xs:keyref name="recNext" refer="r:recId"><xs:selector xpath="r:rec"/><xs:field xpath="@next"/></xs:keyref>
  </xs:element>
</xs:schema>
'''

EXTRA_FAMILIES = {'poly': POLY_XSD, 'fx': FX_XSD, 'un': UN_XSD, 'plain': PLAIN_XSD, 'mixq': MQ_XSD, 'flat': FLAT_XSD}


def family_xsd(family, version):
    """The schema text of a family for one XSD version. The 1.1 text of the tree family declares the branch name
    inheritable, so that every nested branch and leaf is processed below an element with an inheritable attribute."""
    text = dict(FAMILIES, **EXTRA_FAMILIES)[family]
    if version == '1.1' and family == 'tree':
        marked = text.replace('<xs:attribute name="name" type="xs:NCName" use="required"/>',
                              '<xs:attribute name="name" type="xs:NCName" use="required" inheritable="true"/>')
        assert marked != text
        return marked
    return text


def _sku(i):
    return 'AB%03d' % i


def gen_shop(rng, nprod=None, nord=None):
    """A valid shop document (tree of N); metas describe what a fault may do to each node."""
    S = SHOP
    nprod = nprod if nprod is not None else rng.randint(1, 4)
    nord = nord if nord is not None else rng.randint(0, 3)
    root = N(S, 'shop')
    if rng.random() < 0.5:
        root.attrs.append(('', 'version', rng.choice(('1.0', '2', '01.50'))))
    root.meta = {'elem_only': True, 'bad_attr': {'version': 'x.y'}}
    skus = []
    for i in range(nprod):
        sku = _sku(i + 1)
        skus.append(sku)
        # sku / pid carry key and ID values: faults never touch them (a change there is legitimately
        # reported at the *referring* node elsewhere in the document)
        p = N(S, 'product', [('', 'sku', sku)], meta={'elem_only': True,
                                                      'bad_attr': {'active': 'maybe', 'currency': 'USD'}})
        if rng.random() < 0.4:
            p.attrs.append(('', 'active', rng.choice(('true', 'false', '1', '0'))))
        if rng.random() < 0.3:
            p.attrs.append(('', 'currency', 'EUR'))
        p.children.append(N(S, 'title', text=rng.choice(('Chair', 'Table & lamp', 'Sofa', ' spaced  title '))))
        p.children.append(N(S, 'price', text=rng.choice(('10', '9.99', '0', '100.5', '+3.10')), meta={'bad_text': '9.999'}))
        if rng.random() < 0.6:
            p.children.append(N(S, 'size', text=rng.choice(('S', 'M', 'L', '42', '-7')), meta={'bad_text': 'XL'}))
        if rng.random() < 0.5:
            p.children.append(N(S, 'tags', text=rng.choice(('new', 'a b c', 'x-1 y_2', ''))))
        if rng.random() < 0.5:
            if rng.random() < 0.3:
                p.children.append(N(S, 'released', [(XSI, 'nil', 'true')], meta={'nil': True}))
            else:
                p.children.append(N(S, 'released', text=rng.choice(('2020-02-29', '1999-12-31Z', '2024-01-01+02:00')),
                                    meta={'bad_text': '2021-02-30'}))
        for _ in range(rng.choice((0, 0, 1, 2))):
            p.children.append(N(S, rng.choice(('note', 'warning')), text=rng.choice(('fragile', 'n/a', ''))))
        p.meta['required_children'] = ['title', 'price']
        p.meta['swap'] = (0, 1)
        root.children.append(p)
    pid = 0
    for j in range(nord):
        o = N(S, 'order', [('', 'oid', str(100 + j))], meta={'elem_only': True, 'required_attrs': ['oid'],
                                                             'bad_attr': {'oid': '1.5'}})
        pid += 1
        buyer = N(S, 'buyer', [('', 'pid', f'p{pid}')], meta={'elem_only': True,
                                                              'required_children': ['name']})
        buyer.children.append(N(S, 'name', text=rng.choice(('Ann', 'Bob', 'Zoë'))))
        if rng.random() < 0.5:
            buyer.children.append(N(S, 'email', text='a@example.org'))
        if rng.random() < 0.4:
            buyer.attrs.append((XSI, 'type', 's:Company'))
            buyer.children.append(N(S, 'vat', text=f'IT{100 + j}'))
            buyer.meta['xsi_type'] = True
            buyer.meta['required_children'] = ['name', 'vat']
            if rng.random() < 0.5:
                buyer.attrs.append(('', 'country', rng.choice(('FR', 'FR', ''))))     # '' is a value too (the default is IT)
        o.children.append(buyer)
        if rng.random() < 0.5:
            o.attrs.append(('', 'contact', f'p{pid}'))
        for _ in range(rng.randint(1, 3)):
            ln = N(S, 'line', [('', 'ref', rng.choice(skus))], meta={'elem_only': True, 'required_attrs': ['ref'],
                                                                    'required_children': ['qty']})
            ln.children.append(N(S, 'qty', text=str(rng.randint(1, 99)), meta={'bad_text': '0'}))
            r = rng.random()
            if r < 0.3:
                ln.children.append(N(S, 'gift', text=rng.choice(('true', 'false', '1')), meta={'bad_text': 'yes'}))
            elif r < 0.6:
                ln.children.append(N(S, 'discount', text=rng.choice(('1.5', '-2', '1e0'[:1])), meta={'bad_text': 'ten'}))
            o.children.append(ln)
        if rng.random() < 0.4:
            c = N(S, 'comment', text=rng.choice(('please ', 'note: ', '')), meta={'mixed': True})
            for _ in range(rng.randint(0, 2)):
                b = N(S, 'b', text='bold')
                b.tail = rng.choice((' and ', '', ' end'))
                c.children.append(b)
            o.children.append(c)
        for _ in range(rng.choice((0, 0, 1))):
            x = N(EXT, 'extra', [('', 'a', '1')], text=None, meta={'wild': True})
            x.children.append(N(EXT, 'deep', text='v', meta={'wild': True}))
            o.children.append(x)
        if rng.random() < 0.3:
            o.attrs.append((EXT, 'flag', 'on'))
        o.meta['required_children'] = ['buyer', 'line']
        root.children.append(o)
    root.meta['required_children'] = ['product']
    return root


def gen_tree(rng, depth=None, width=None):
    T = TREE
    depth = depth if depth is not None else rng.randint(1, 4)
    width = width if width is not None else rng.randint(1, 3)
    counter = [0]

    def branch(d):
        counter[0] += 1
        b = N(T, 'branch', [('', 'name', f'b{counter[0]}')], meta={'elem_only': True, 'required_attrs': ['name'],
                                                                   'bad_attr': {'name': '1 bad'}})
        if rng.random() < 0.4:
            b.children.append(N(T, 'label', text=rng.choice(('x', ' y  z '))))
        ks = rng.sample(range(1, 20), 6)
        for i in range(rng.randint(0, width + 1)):
            if d < depth and rng.random() < 0.55:
                b.children.append(branch(d + 1))
            else:
                lf = N(T, 'leaf', [('', 'k', str(ks[i % 6]) + rng.choice(('', '.0')))], text=str(rng.randint(-5, 500)),
                       meta={'bad_text': '1.5', 'required_attrs': ['k'], 'bad_attr': {'k': 'k'}})
                if i >= 6:
                    lf.attrs[0] = ('', 'k', str(100 + i))
                if rng.random() < 0.3:
                    lf.attrs.append(('', 'unit', 'cm'))
                b.children.append(lf)
        return b

    root = N(T, 'tree', meta={'elem_only': True, 'required_children': ['branch']})
    for _ in range(rng.randint(1, width + 1)):
        root.children.append(branch(1))
    return root


def gen_ctx(rng):
    """Same local name `item` declared with different types in different contexts."""
    X = CTX

    def a_node():
        a = N(X, 'a', meta={'elem_only': True, 'required_children': ['item']})
        for _ in range(rng.randint(1, 3)):
            a.children.append(N(X, 'item', text=str(rng.randint(-9, 99)), meta={'bad_text': 'x1', 'decl': 'A/item:int'}))
        if rng.random() < 0.5:
            sub = N(X, 'sub', meta={'elem_only': True, 'required_children': ['item']})
            sub.children.append(N(X, 'item', text=rng.choice(('true', 'false', '0', '1')),
                                  meta={'bad_text': 'maybe', 'decl': 'A/sub/item:boolean'}))
            a.children.append(sub)
        return a

    root = N(X, 'ctx', meta={'elem_only': True, 'required_children': ['a', 'b']})
    root.children.append(a_node())
    for i in range(rng.randint(1, 3)):
        b = N(X, 'b', meta={'elem_only': True, 'required_children': ['item'], 'bad_attr': {'n': 'n'}})
        if rng.random() < 0.5:
            b.attrs.append(('', 'n', str(i)))
        b.children.append(N(X, 'item', text=rng.choice(('text', '12', 'true', '2020-01-01')), meta={'decl': 'B/item:string'}))
        if rng.random() < 0.5:
            b.children.append(a_node())
        root.children.append(b)
    for _ in range(rng.randint(0, 3)):
        root.children.append(N(X, rng.choice(('item', 'alt')), text=rng.choice(('2020-02-29', '1999-01-01Z')),
                               meta={'bad_text': '2020-13-01', 'decl': 'global:date'}))
    return root


def gen_poly(rng, fault=None):
    """Parts typed through xsi:type="p:Ext" whose children carry a key and a keyref declared on `part`.
    fault: None | 'dup_key' | 'dangling_keyref' (reported only if the identity selectors were widened)."""
    P = POLY
    root = N(P, 'poly', meta={'elem_only': True})
    nparts = rng.randint(1, 3)
    for i in range(nparts):
        part = N(P, 'part', meta={'elem_only': True})
        part.children.append(N(P, 'title', text=f'part {i}'))
        if rng.random() < 0.8 or fault:
            part.attrs.append((XSI, 'type', 'p:Ext'))
            part.meta['xsi_type'] = True
            ids = rng.sample(range(1, 30), rng.randint(1, 4))
            for k in ids:
                part.children.append(N(P, 'entry', [('', 'id', str(k))]))
            for _ in range(rng.randint(0, 3)):
                part.children.append(N(P, 'use', [('', 'ref', rng.choice(('%d', '0%d', '+%d')) % rng.choice(ids))]))
            if fault == 'dup_key' and i == 0:
                part.children.insert(2, N(P, 'entry', [('', 'id', '0%d' % ids[0])]))
            if fault == 'dangling_keyref' and i == 0:
                part.children.append(N(P, 'use', [('', 'ref', '99')]))
        root.children.append(part)

    def slot(ids):
        sl = N(P, 'slot', [(XSI, 'type', 'p:Ext')], meta={'elem_only': True, 'xsi_type': True})
        sl.children.append(N(P, 'title', text='slot'))
        for k in ids:
            sl.children.append(N(P, 'entry', [('', 'id', str(k))]))
        return sl
    kind = rng.choice(('none', 'loose', 'shelf', 'both')) if fault is None else {'dup_shelf': 'shelf', 'loose_only': 'loose'}.get(fault, 'none')
    if kind in ('loose', 'both'):
        for _ in range(rng.randint(1, 2)):
            root.children.append(slot(rng.sample(range(1, 9), rng.randint(1, 2))))   # ids may repeat across loose slots: no scope
    if kind in ('shelf', 'both'):
        for _ in range(rng.randint(1, 2)):
            shelf = N(P, 'shelf', meta={'elem_only': True})
            ids = rng.sample(range(1, 40), rng.randint(2, 5))
            cut = rng.randint(1, len(ids) - 1)
            shelf.children.append(slot(ids[:cut]))
            shelf.children.append(slot(ids[cut:]))
            if fault == 'dup_shelf':
                shelf.children[-1].children.append(N(P, 'entry', [('', 'id', '0%d' % ids[0])]))
            root.children.append(shelf)
    return root


def gen_fx(rng, fault=None):
    """Fixed values whose effective type varies through xsi:type (value-space comparison depends on it).
    Documents are a mix of valid and invalid ones by design."""
    F = FX
    root = N(F, 'fx')
    if rng.random() < 0.5:
        root.attrs.append(('', 'k', rng.choice(('2.5', '2.50', '02.500', '2.51'))))
    for _ in range(rng.randint(0, 3)):
        xt = rng.choice((None, None, 'xs:integer', 'xs:int'))
        text = rng.choice(('1', '2', '01')) if xt else rng.choice(('1.0', '1', '1.00', '2', '1.5', '+1.0'))
        root.children.append(N(F, 'd', [(XSI, 'type', xt)] if xt else [], text=text))
    for _ in range(rng.randint(0, 3)):
        xt = rng.choice((None, None, 'xs:token', 'xs:normalizedString'))
        root.children.append(N(F, 's', [(XSI, 'type', xt)] if xt else [], text=rng.choice(('a b', 'a  b', ' a b ', 'a\tb', 'ab'))))
    for _ in range(rng.randint(0, 2)):
        xt = rng.choice((None, 'xs:integer'))
        root.children.append(N(F, 'n', [(XSI, 'type', xt)] if xt else [], text=rng.choice(('1', '2')) if xt else rng.choice(('1.5', '3'))))
    # an empty q is valid only because its default is applied (use_defaults option)
    for _ in range(rng.choice((0, 0, 1, 2))):
        root.children.append(N(F, 'q', text=rng.choice(('', '', '3', '0'))))
    # mixed content with a fixed value: an empty element takes the value, any other text is compared with it
    for _ in range(rng.choice((0, 0, 1, 2))):
        root.children.append(N(F, 'mx', text=rng.choice(('abc', '', ' ', 'abd', None))))
    for _ in range(rng.choice((0, 1, 2))):
        root.children.append(N(F, 'u1', text=rng.choice(('7', '07', ' 7', '007', '8'))))
    for _ in range(rng.choice((0, 1, 2))):
        root.children.append(N(F, 'u2', text=rng.choice(('1', ' 1', '1 ', ' 1 ', 'a'))))
    return root


def gen_un(rng, fault=None):
    """Valid documents with many union-typed values (plain and pattern-restricted) next to each other."""
    root = N(UN, 'un', meta={'elem_only': True, 'required_children': ['item']})
    for _ in range(rng.randint(1, 4)):
        item = N(UN, 'item', meta={'elem_only': True, 'required_children': ['code']})
        if rng.random() < 0.6:
            item.attrs.append(('', 'a', rng.choice(('k9', 'abc', 'z'))))
            item.meta['bad_attr'] = {'a': 'K9'}
        if rng.random() < 0.6:
            item.attrs.append(('', 'b', rng.choice(('7', 'ZZ', '-12', 'Big_one'))))
        item.children.append(N(UN, 'code', text=rng.choice(('abc', 'x1', 'q')), meta={'bad_text': rng.choice(('AB', 'x y'))}))   # fails the pattern / every member
        if rng.random() < 0.6:
            item.children.append(N(UN, 'ref', text=rng.choice(('AB12', '123', 'XY0')), meta={'bad_text': rng.choice(('ab12', 'AB 12'))}))
        if rng.random() < 0.7:
            item.children.append(N(UN, 'size', text=rng.choice(('5', 'XL', 'Big', '042')), meta={'bad_text': '4 2'}))
        if rng.random() < 0.5:
            item.children.append(N(UN, 'ul', text=rng.choice(('1 2 3', '7', '2020-01-01', '')), meta={'bad_text': '1 2 3 4'}))
        if rng.random() < 0.4:
            item.children.append(N(UN, 'tok', text=rng.choice(('a', 'a b', ' a  b ')), meta={'bad_text': 'A'}))
        if rng.random() < 0.5:
            # members without patterns of their own: a bad value fails to decode in every member type
            item.children.append(N(UN, 'w', text=rng.choice(('17', '2020-02-02', ' 5 ')), meta={'bad_text': rng.choice(('maybe', '12x'))}))
        # overlapping member types: the first member in declared order that accepts the text decides the value
        for _ in range(rng.choice((0, 1, 2))):
            item.children.append(N(UN, 'v', text=rng.choice(('007', '12', 'x', ' 5 ', 'none', '1e3'))))
        # a repeatable element of list type: its values are lists, also the empty one
        for _ in range(rng.choice((0, 0, 1, 2))):
            item.children.append(N(UN, 'nums', text=rng.choice(('1 2', '7', '', '3 4 5')), meta={'bad_text': '1 x'}))
        root.children.append(item)
    if rng.random() < 0.4:
        # one child admitted by a wildcard with maxOccurs=1: a global element of list type or of an atomic type
        extra = N(UN, 'extra', meta={'elem_only': True})
        if rng.random() < 0.8:
            extra.children.append(rng.choice((N(UN, 'vals', text=rng.choice(('1 2 3', '4 5', '6')), meta={'wild': True, 'bad_text': '1 x'}),
                                              N(UN, 'label', text='some label', meta={'wild': True}))))
        root.children.append(extra)
    return root


def gen_plain(rng, fault=None):
    """No namespaces anywhere; the local name `name` is declared three times with different types."""
    root = N('', 'plain', meta={'elem_only': True, 'required_children': ['item']})
    for i in range(rng.randint(1, 4)):
        item = N('', 'item', [('', 'id', str(i + 1))], meta={'elem_only': True, 'required_children': ['name'],
                                                           'required_attrs': ['id'], 'bad_attr': {'id': 'x'}})
        item.children.append(N('', 'name', text=rng.choice(('bolt', 'nut 7', '12')), meta={}))
        if rng.random() < 0.6:
            item.attrs.append(('', 'y', str(1990 + i)))     # a date-typed identity-constraint field
            item.meta['bad_attr'] = {'y': '19x0'}
        if rng.random() < 0.5:
            item.children.append(N('', 'qty', text=str(rng.randint(1, 50)), meta={'bad_text': '0'}))
        for _ in range(rng.randint(0, 3)):
            part = N('', 'part', meta={'elem_only': True, 'required_children': ['name'], 'bad_attr': {'k': 'k1'}})
            if rng.random() < 0.5:
                part.attrs.append(('', 'k', str(rng.randint(0, 9))))
            part.children.append(N('', 'name', text=str(rng.randint(-5, 500)), meta={'bad_text': 'bolt'}))
            item.children.append(part)
        root.children.append(item)
    if rng.random() < 0.5:
        root.children.append(N('', 'name', text='2020-01-31', meta={'bad_text': '12'}))
    return root


def gen_mixq(rng, fault=None):
    root = N(MQ, 'box', meta={'elem_only': True, 'required_children': ['label']})
    root.children.append(N('', 'label', text=rng.choice(('a label', 'x', ''))))
    if rng.random() < 0.6:
        root.children.append(N('', 'size', text=str(rng.randint(-3, 40)), meta={'bad_text': 'big'}))
    for i in range(rng.randint(0, 3)):
        inner = N('', 'inner', meta={'elem_only': True, 'required_children': ['tag'], 'bad_attr': {'n': 'n1'}})
        if rng.random() < 0.5:
            inner.attrs.append(('', 'n', str(i)))
        for _ in range(rng.randint(1, 3)):
            inner.children.append(N(MQ, 'tag', text=rng.choice(('t1', 'alpha', 'z_9')), meta={'bad_text': '1 t'}))
        if rng.random() < 0.4:
            inner.children.append(N('', 'note', text='n'))
        root.children.append(inner)
    if rng.random() < 0.5:
        root.children.append(N(MQ, 'tag', text='last', meta={'bad_text': 'a b'}))
    return root


def gen_flat(rng, fault=None, n=None):
    """fault: None | 'dup_key_late' | 'dangling_keyref_late'."""
    n = n if n is not None else rng.randint(1, 8)
    root = N(FLAT, 'flat', meta={'elem_only': True})
    for i in range(n):
        attrs = [('', 'id', str(i + 1))]
        if rng.random() < 0.6:
            attrs.append(('', 'next', str(rng.randint(1, n))))
        if rng.random() < 0.5:
            attrs.append(('', 'tag', rng.choice(('alpha', 'beta', 'g_1'))))
        root.children.append(N(FLAT, 'rec', attrs, meta={'required_attrs': ['id'], 'bad_attr': {'id': 'one', 'tag': '1x'}}))
    if fault == 'dup_key_late' and n >= 2:
        last = root.children[-1]
        last.attrs = [(a, b, str(n - 1)) if b == 'id' else (a, b, c) for a, b, c in last.attrs]
        for r in root.children:
            r.attrs = [(a, b, '1') if b == 'next' else (a, b, c) for a, b, c in r.attrs]
    if fault == 'dangling_keyref_late' and n >= 1:
        last = root.children[-1]
        last.attrs = [x for x in last.attrs if x[1] != 'next'] + [('', 'next', '99999')]
    return root


GENERATORS = {'flat': gen_flat, 'mixq': gen_mixq, 'plain': gen_plain, 'un': gen_un, 'shop': gen_shop, 'tree': gen_tree, 'ctx': gen_ctx, 'poly': gen_poly, 'fx': gen_fx}


# ---------------------------------------------------------------------------------------------
# single-node faults; each returns (damaged copy, path of the damaged node, kind) or None
FAULT_KINDS = ('bad_text', 'missing_child', 'extra_child', 'swap', 'missing_attr', 'unknown_attr', 'bad_attr')


def faults_at(root, path):
    """Kinds of single-node faults applicable at the node of `path` (invalid by construction)."""
    n = root.at(path)
    out = []
    m = n.meta
    if m.get('wild'):
        return out
    if 'bad_text' in m and not m.get('nil'):
        out.append('bad_text')
    if m.get('nil'):
        # a nilled element has no content at all: neither children nor character data
        out += ['nil_child', 'nil_text']
    if m.get('elem_only'):
        out.append('extra_child')
        out.append('stray_text')     # character data in element-only content (with or without children)
        if m.get('required_children'):
            out.append('missing_child')
        if 'swap' in m and len(n.children) > max(m['swap']):
            out.append('swap')
    if m.get('required_attrs'):
        out.append('missing_attr')
    if m.get('elem_only') or 'bad_text' in m:
        out.append('unknown_attr')
    if m.get('bad_attr') and any(a[1] in m['bad_attr'] and not a[0] for a in n.attrs):
        out.append('bad_attr')
    return out


def apply_fault(root, path, kind, rng):
    """Return (damaged_root, damaged_path, detail). The damaged node is `path` (for child-level
    faults the damaged node is the parent whose content became wrong)."""
    r = copy.deepcopy(root)
    n = r.at(path)
    m = n.meta
    if kind == 'bad_text':
        n.text = m['bad_text']
        return r, path, f'text={m["bad_text"]!r}'
    if kind == 'nil_child':
        n.children.append(N(n.ns, rng.choice(('bogus', n.name)), text=rng.choice(('x', None)), meta={'bogus': True}))
        return r, path, 'child element inside a nilled element'
    if kind == 'nil_text':
        n.text = 'x'
        return r, path, 'character data inside a nilled element'
    if kind == 'stray_text':
        if n.children and rng.random() < 0.5:
            rng.choice(n.children).tail = 'stray'
        else:
            n.text = 'stray'
        return r, path, 'character data in element-only content'
    if kind == 'extra_child':
        pos = rng.randint(0, len(n.children))
        n.children.insert(pos, N(n.ns, 'bogus', text='x', meta={'bogus': True}))
        return r, path, f'unknown child at {pos}'
    if kind == 'missing_child':
        names = [c for c in m['required_children']]
        rng.shuffle(names)
        for nm in names:
            idx = [i for i, c in enumerate(n.children) if c.name == nm]
            # dropping is a fault only if it is the last one of that name
            if len(idx) == 1:
                del n.children[idx[0]]
                return r, path, f'dropped required child {nm}'
        return None
    if kind == 'swap':
        i, j = m['swap']
        n.children[i], n.children[j] = n.children[j], n.children[i]
        return r, path, 'swapped children'
    if kind == 'missing_attr':
        nm = rng.choice(m['required_attrs'])
        n.attrs = [a for a in n.attrs if not (a[1] == nm and not a[0])]
        return r, path, f'dropped required attribute {nm}'
    if kind == 'unknown_attr':
        n.attrs.append(('', 'bogusattr', 'x'))
        return r, path, 'unknown attribute'
    if kind == 'bad_attr':
        cands = [a[1] for a in n.attrs if a[1] in m['bad_attr'] and not a[0]]
        nm = rng.choice(cands)
        n.attrs = [(a[0], a[1], m['bad_attr'][nm]) if (a[1] == nm and not a[0]) else a for a in n.attrs]
        return r, path, f'bad attribute value {nm}={m["bad_attr"][nm]!r}'
    raise ValueError(kind)


def identity_fault(root, family, kind, rng, late=False):
    """Document-wide identity faults for the shop family. Returns (damaged, detail) or None. late: the damage is put at
    the end of the document (in a long document: in a part that a streaming reader meets late)."""
    r = copy.deepcopy(root)
    if family != 'shop':
        return None
    prods = [c for c in r.children if c.name == 'product']
    orders = [c for c in r.children if c.name == 'order']
    if late:
        keep_sku = prods[0].attrs[0][2] if prods else None
        prods = prods[::-1]
        orders = orders[::-1]
        if kind == 'dup_key' and len(prods) >= 2:
            prods[0].attrs = [(a[0], a[1], prods[1].attrs[0][2]) if a[1] == 'sku' else a for a in prods[0].attrs]
            for o in orders:
                for ln in o.children:
                    if ln.name == 'line':
                        ln.attrs = [('', 'ref', keep_sku)]
            return r, 'duplicate sku key (last two products)'
    if kind == 'dup_key' and len(prods) >= 2:
        prods[1].attrs = [(a[0], a[1], prods[0].attrs[0][2]) if a[1] == 'sku' else a for a in prods[1].attrs]
        # keep keyrefs resolvable
        for o in orders:
            for ln in o.children:
                if ln.name == 'line':
                    ln.attrs = [('', 'ref', prods[0].attrs[0][2])]
        return r, 'duplicate sku key'
    if kind == 'dangling_keyref' and orders:
        for ln in orders[0].children:
            if ln.name == 'line':
                ln.attrs = [('', 'ref', 'ZZ999')]
                return r, 'dangling keyref'
    if kind == 'dup_unique' and len(orders) >= 2:
        orders[1].attrs = [(a[0], a[1], '0100') if a[1] == 'oid' else a for a in orders[1].attrs]
        orders[0].attrs = [(a[0], a[1], '100') if a[1] == 'oid' else a for a in orders[0].attrs]
        return r, 'duplicate oid in value space (100 vs 0100)'
    if kind == 'dangling_idref' and orders:
        orders[0].attrs = [a for a in orders[0].attrs if a[1] != 'contact'] + [('', 'contact', 'nobody')]
        return r, 'dangling IDREF'
    if kind == 'dup_id' and len(orders) >= 2:
        b0 = orders[0].children[0]
        b1 = orders[1].children[0]
        pid = [a for a in b0.attrs if a[1] == 'pid'][0][2]
        b1.attrs = [(a[0], a[1], pid) if a[1] == 'pid' else a for a in b1.attrs]
        orders[1].attrs = [a for a in orders[1].attrs if a[1] != 'contact']
        return r, 'duplicate ID'
    if kind == 'dup_vat' and len(orders) >= 2:
        # unique on a child that exists only through xsi:type="s:Company"
        for o in orders[:2]:
            b = o.children[0]
            b.attrs = [a for a in b.attrs if not (a[0] == XSI and a[1] == 'type')] + [(XSI, 'type', 's:Company')]
            b.children = [c for c in b.children if c.name != 'vat'] + [N(SHOP, 'vat', text='IT777')]
            b.meta['xsi_type'] = True
        return r, 'duplicate vat under xsi:type'
    return None


IDENTITY_FAULTS = ('dup_key', 'dangling_keyref', 'dup_unique', 'dangling_idref', 'dup_id')
# not in the shared list: the library does not collect fields of children that exist only through
# xsi:type when the selector has several steps (see C08 / C10), so this fault is silent there
SPECIAL_IDENTITY_FAULTS = ('dup_vat',)


def default_prefixes(family, rng=None):
    if family == 'plain':
        return {}
    ns = FAMILY_NS[family]
    base = {'shop': 's', 'tree': 't', 'ctx': 'c', 'poly': 'p', 'fx': 'f', 'un': 'u', 'mixq': 'q', 'flat': 'r'}[family]
    if rng is None:
        return {ns: base, EXT: 'e'}
    if family == 'mixq':
        return {ns: rng.choice((base, 'mq')), EXT: 'e'}     # unqualified children: the family namespace needs a prefix
    return {ns: rng.choice((base, '', 'q')), EXT: 'e'}


def render_doc(root, family, rng=None, prefixes=None, rebinding=False):
    """Render; QName-valued content (xsi:type='s:Company') needs the 's' prefix bound."""
    prefixes = dict(prefixes or default_prefixes(family, rng))
    extra = ''
    if family == 'shop' and prefixes.get(SHOP) != 's':
        extra = f' xmlns:s="{SHOP}"'
    if family == 'poly' and prefixes.get(POLY) != 'p':
        extra = f' xmlns:p="{POLY}"'
    if family == 'fx':
        extra = f' xmlns:xs="{XS}"'
    return render(root, prefixes, extra_root_attrs=extra, rebinding=rebinding)
