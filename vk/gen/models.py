"""Content-model AST: construction, canonical text, XSD rendering, enumeration and sampling.

AST nodes are tuples (hashable, JSON-able as lists):
  ('e', name, min, max)                element particle of type xs:string; name in ELEMENT_NAMES
  ('t', name, type, min, max)          element particle of another built-in type (EDC workloads)
  ('h', min, max)                      reference to the substitution-group head 'h'
  ('w', con, min, max)                 element wildcard; con in WILDCARD_CONS
  ('s'|'c'|'a', [children], min, max)  sequence / choice / all
max is an int or None (unbounded).

A *config* dict accompanies a model:
  subst: 'plain' | 'head_abstract' | 'member_abstract' | 'blocked'   (substitution group of h)
  open:  None | ('interleave'|'suffix', con)                         (XSD 1.1 open content)
  groupref: bool   render the first nested group as a named xs:group reference
The symbols of words are SYMBOLS keys; each has an expanded name used in instances.
"""
import itertools

TNS = 'urn:vk:t'
N1 = 'urn:vk:n1'
XS = 'http://www.w3.org/2001/XMLSchema'

# symbol -> (namespace, local)
SYMBOLS = {
    'a': (TNS, 'a'), 'b': (TNS, 'b'), 'c': (TNS, 'c'),
    'h': (TNS, 'h'), 'm': (TNS, 'm'), 'k': (TNS, 'k'),   # head, member, abstract-able member
    'j': (TNS, 'j'),                                       # member of k's group: substitutes h transitively
    'g': (TNS, 'g'),                                       # a second head (XSD 1.1: m is a member of h's and of g's group)
    'x': (N1, 'x'),                                        # foreign namespace
    'n': ('', 'n'),                                        # no namespace
    'u': (TNS, 'u'),                                       # target namespace, never declared
}
ELEMENT_NAMES = ('a', 'b', 'c')
WILDCARD_CONS = ('any', 'other', 'local', 'tns', 'n1')
# further constraints: namespace lists (XSD 1.0 and 1.1) and notNamespace (1.1 only)
WILDCARD_CONS_MORE = ('n1_local', 'tns_n1', 'not_n1', 'not_tns')
# constraint -> ('in' | 'notin', set of namespaces)
WILDCARD_SETS = {'any': ('notin', frozenset()), 'other': ('notin', frozenset(('', TNS))), 'local': ('in', frozenset(('',))),
                 'tns': ('in', frozenset((TNS,))), 'n1': ('in', frozenset((N1,))), 'n1_local': ('in', frozenset((N1, ''))),
                 'tns_n1': ('in', frozenset((TNS, N1))), 'not_n1': ('notin', frozenset((N1,))), 'not_tns': ('notin', frozenset((TNS,)))}
OCCURS = ((0, 1), (1, 1), (0, None), (1, None), (0, 2), (1, 2), (2, 2), (2, 3), (2, None), (0, 3))


def con_base(con):
    """A constraint name may carry `~a,b`: notQName="##definedSibling" in a model whose element declarations are a and b
    (the names are kept in the node so that a leaf is still self-contained; to_tuple keeps them in step with the model)."""
    return con.split('~')[0]


def wildcard_admits(con, sym):
    ns = SYMBOLS[sym][0]
    kind, nss = WILDCARD_SETS[con_base(con)]
    if '~' in con and sym in con.split('~')[1].split(','):
        return False
    return (ns in nss) == (kind == 'in')


def declared_names(node):
    return sorted({lf[1] for lf in leaves(node) if lf[0] in 'et'} | ({'h'} if any(lf[0] == 'h' for lf in leaves(node)) else set()))


def resync_siblings(node, names=None):
    """Rewrite every ##definedSibling wildcard of the model with the names the model declares now."""
    if names is None:
        if not any(lf[0] == 'w' and '~' in lf[1] for lf in leaves(node)):
            return node
        names = ','.join(declared_names(node))
    if is_group(node):
        return (node[0], tuple(resync_siblings(c, names) for c in node[1])) + tuple(node[2:])
    if node[0] == 'w' and '~' in node[1]:
        return ('w', con_base(node[1]) + '~' + names) + tuple(node[2:])
    return node


def with_defined_sibling(node, rng, p=0.7):
    """The same model with (some of) its wildcards carrying notQName="##definedSibling" (XSD 1.1)."""
    def mark(n):
        if is_group(n):
            return (n[0], tuple(mark(c) for c in n[1])) + tuple(n[2:])
        if n[0] == 'w' and '~' not in n[1] and rng.random() < p:
            return ('w', n[1] + '~') + tuple(n[2:])
        return n
    return resync_siblings(mark(to_tuple(node)))


def head_members(subst):
    """Symbols accepted by a reference to head h under a substitution configuration (j substitutes k, which
    substitutes h: membership is transitive, also through an abstract k)."""
    if subst == 'plain':
        return {'h', 'm', 'k', 'j'}
    if subst == 'head_abstract':
        return {'m', 'k', 'j'}
    if subst == 'member_abstract':
        return {'h', 'm', 'j'}
    if subst == 'blocked':
        return {'h'}
    raise ValueError(subst)


def leaf_symbols(node, subst='plain'):
    """The set of symbols a leaf particle can match."""
    if node[0] in 'et':
        return {node[1]}
    if node[0] == 'h':
        return head_members(subst)
    if node[0] == 'r':
        # reference to the global element named before `~`; the symbols it stands for follow it
        return set(node[1].split('~')[1].split(','))
    if node[0] == 'w':
        return {s for s in SYMBOLS if wildcard_admits(node[1], s)}
    raise ValueError(node)


def occ(node):
    return (node[-2], node[-1])


def is_group(node):
    return node[0] in 'sca'


def to_tuple(node):
    """Normalise lists (from JSON) to tuples."""
    if isinstance(node, (list, tuple)):
        t = tuple(to_tuple(x) for x in node)
        if t and t[0] in ('s', 'c', 'a') and len(t) == 4 and isinstance(t[1], tuple):
            return resync_siblings(t)
        return t
    return node


def drop_absent(node):
    """The model without its particles of maxOccurs=0 (the root is kept)."""
    if is_group(node):
        kids = tuple(drop_absent(c) for c in node[1] if occ(c)[1] != 0)
        return (node[0], kids) + tuple(node[2:])
    return node


def has_absent(node):
    return is_group(node) and any(occ(c)[1] == 0 or has_absent(c) for c in node[1])


def has_empty_choice(node, nested_only=True, top=True):
    if not is_group(node):
        return False
    n = drop_absent(node) if top else node
    if n[0] == 'c' and not n[1] and not (top and nested_only):
        return True
    return any(has_empty_choice(c, nested_only, False) for c in n[1])


def occ_text(mn, mx):
    if (mn, mx) == (1, 1):
        return ''
    if (mn, mx) == (0, 1):
        return '?'
    if (mn, mx) == (0, None):
        return '*'
    if (mn, mx) == (1, None):
        return '+'
    return '{%d,%s}' % (mn, 'inf' if mx is None else mx)


def text(node):
    """Canonical compact text, e.g. seq{2,2}(a?, cho(b | any:other*))."""
    k = node[0]
    if k == 'e':
        return node[1] + occ_text(*occ(node))
    if k == 't':
        return node[1] + ':' + node[2] + occ_text(*occ(node))
    if k == 'h':
        return 'H' + occ_text(*occ(node))
    if k == 'r':
        return 'ref:' + node[1].split('~')[0] + occ_text(*occ(node))
    if k == 'w':
        return 'any:' + node[1] + occ_text(*occ(node))
    name = {'s': 'seq', 'c': 'cho', 'a': 'all'}[k]
    sep = {'s': ', ', 'c': ' | ', 'a': ' & '}[k]
    return name + occ_text(*occ(node)) + '(' + sep.join(text(c) for c in node[1]) + ')'


def size(node):
    if is_group(node):
        return 1 + sum(size(c) for c in node[1])
    return 1


def leaves(node):
    if is_group(node):
        for c in node[1]:
            yield from leaves(c)
    else:
        yield node


def alphabet(node, cfg):
    syms = set()
    for lf in leaves(node):
        if lf[0] == 'w':
            # one representative per namespace class is enough for a wildcard
            for s in ('x', 'n', 'u'):
                if wildcard_admits(lf[1], s):
                    syms.add(s)
        else:
            syms |= leaf_symbols(lf, cfg.get('subst', 'plain'))
            if lf[0] == 'h':
                syms |= {'h', 'm', 'k', 'j'}
            if lf[0] == 'r':
                syms |= {lf[1].split('~')[0]}
    if cfg.get('open'):
        for s in ('x', 'n', 'u'):
            if wildcard_admits(cfg['open'][1], s):
                syms.add(s)
    return syms


def nontrivial(node):
    """At least one group with non-default occurs, or nesting, or a non-element leaf."""
    if not is_group(node):
        return False
    if occ(node) != (1, 1):
        return True
    return any(is_group(c) or c[0] != 'e' for c in node[1]) and len(node[1]) > 1 or \
        any(is_group(c) and (occ(c) != (1, 1) or len(c[1]) > 1) for c in node[1])


# ---------------------------------------------------------------------------------------------
# XSD rendering
def occ_attrs(mn, mx):
    s = ''
    if mn != 1:
        s += f' minOccurs="{mn}"'
    if mx != 1:
        s += ' maxOccurs="%s"' % ('unbounded' if mx is None else mx)
    return s


CON_ATTR = {'any': '##any', 'other': '##other', 'local': '##local', 'tns': '##targetNamespace', 'n1': N1,
            'n1_local': N1 + ' ##local', 'tns_n1': '##targetNamespace ' + N1}
NOT_ATTR = {'not_n1': N1, 'not_tns': '##targetNamespace'}


def render_particle(node, cfg, indent='    ', types=None, named=None):
    k = node[0]
    if k == 'e':
        t = (types or {}).get(node[1], 'xs:string')
        return f'{indent}<xs:element name="{node[1]}" type="{t}"{occ_attrs(*occ(node))}/>\n'
    if k == 't':
        return f'{indent}<xs:element name="{node[1]}" type="xs:{node[2]}"{occ_attrs(*occ(node))}/>\n'
    if k == 'h':
        return f'{indent}<xs:element ref="t:h"{occ_attrs(*occ(node))}/>\n'
    if k == 'r':
        return f'{indent}<xs:element ref="t:{node[1].split("~")[0]}"{occ_attrs(*occ(node))}/>\n'
    if k == 'w':
        pc = cfg.get('pc', 'skip')
        sib = ' notQName="##definedSibling"' if '~' in node[1] else ''
        if con_base(node[1]) in NOT_ATTR:
            return f'{indent}<xs:any notNamespace="{NOT_ATTR[con_base(node[1])]}"{sib} processContents="{pc}"{occ_attrs(*occ(node))}/>\n'
        return f'{indent}<xs:any namespace="{CON_ATTR[con_base(node[1])]}"{sib} processContents="{pc}"{occ_attrs(*occ(node))}/>\n'
    tag = {'s': 'sequence', 'c': 'choice', 'a': 'all'}[k]
    if named is not None and is_group(node):
        # every group with the same compositor and particles refers to the one definition, whatever its occurrence range
        for g, gname in named.items():
            if g[:2] == node[:2]:
                return f'{indent}<xs:group ref="t:{gname}"{occ_attrs(*occ(node))}/>\n'
    out = f'{indent}<xs:{tag}{occ_attrs(*occ(node))}>\n'
    for c in node[1]:
        out += render_particle(c, cfg, indent + '  ', types, named)
    out += f'{indent}</xs:{tag}>\n'
    return out


def render_group_def(name, node, cfg, types=None):
    tag = {'s': 'sequence', 'c': 'choice', 'a': 'all'}[node[0]]
    out = f'  <xs:group name="{name}">\n    <xs:{tag}>\n'
    for c in node[1]:
        out += render_particle(c, cfg, '      ', types)
    out += f'    </xs:{tag}>\n  </xs:group>\n'
    return out


def schema_head(extra_attrs=''):
    return (f'<xs:schema xmlns:xs="{XS}" targetNamespace="{TNS}" xmlns:t="{TNS}" xmlns:p1="{N1}" '
            f'elementFormDefault="qualified"{extra_attrs}>\n')


def subst_decls(cfg):
    subst = cfg.get('subst', 'plain')
    habs = ' abstract="true"' if subst == 'head_abstract' else ''
    kabs = ' abstract="true"' if subst == 'member_abstract' else ''
    blk = ' block="substitution"' if subst == 'blocked' else ''
    if cfg.get('two_heads'):
        # XSD 1.1: m belongs to the substitution groups of two unrelated heads
        return (f'  <xs:element name="h" type="xs:string"{habs}{blk}/>\n'
                f'  <xs:element name="g" type="xs:string"/>\n'
                f'  <xs:element name="m" type="xs:string" substitutionGroup="t:h t:g"/>\n'
                f'  <xs:element name="k" type="xs:string" substitutionGroup="t:h"{kabs}/>\n'
                f'  <xs:element name="j" type="xs:string" substitutionGroup="t:k"/>\n')
    return (f'  <xs:element name="h" type="xs:string"{habs}{blk}/>\n'
            f'  <xs:element name="m" type="xs:string" substitutionGroup="t:h"/>\n'
            f'  <xs:element name="k" type="xs:string" substitutionGroup="t:h"{kabs}/>\n'
            f'  <xs:element name="j" type="xs:string" substitutionGroup="t:k"/>\n')


def first_nested_group(node):
    if is_group(node):
        for c in node[1]:
            if is_group(c):
                return c
    return None


def render_type(name, node, cfg, types=None):
    named = None
    defs = ''
    if cfg.get('groupref'):
        g = first_nested_group(node)
        if g is not None and g[0] != 'a':
            named = {g: 'G_' + name}
            defs = render_group_def('G_' + name, g, cfg, types)
    out = defs + f'  <xs:complexType name="{name}">\n'
    if cfg.get('open'):
        mode, con = cfg['open']
        out += (f'    <xs:openContent mode="{mode}"><xs:any namespace="{CON_ATTR[con]}" '
                f'processContents="skip"/></xs:openContent>\n')
    if not is_group(node):
        node = ('s', (node,), 1, 1)
    if cfg.get('groupref_root'):
        # the whole model is a named group; the type's content is one reference to it, carrying the occurrence range
        out = defs + render_group_def('R_' + name, node, cfg, types) + out[len(defs):]
        out += f'    <xs:group ref="t:R_{name}"{occ_attrs(*occ(node))}/>\n  </xs:complexType>\n'
        return out
    out += render_particle(node, cfg, '    ', types, named)
    out += '  </xs:complexType>\n'
    return out


def render_schema(node, cfg, types=None):
    """A schema with root element r whose type has the model as content."""
    out = schema_head()
    out += subst_decls(cfg)
    out += render_type('T', node, cfg, types)
    out += '  <xs:element name="r" type="t:T"/>\n</xs:schema>\n'
    return out


def instance_element(word, root='r'):
    """ElementTree element <t:r> with one empty child per symbol of the word."""
    from xml.etree.ElementTree import Element, SubElement
    e = Element('{%s}%s' % (TNS, root))
    for s in word:
        ns, ln = SYMBOLS[s]
        SubElement(e, '{%s}%s' % (ns, ln) if ns else ln)
    return e


def instance_element_noisy(word, root='r'):
    """The same children with what is not an element information item between them: comments, processing instructions
    and white space (the children sequence of the content model is unchanged)."""
    from xml.etree.ElementTree import Element, SubElement, Comment, ProcessingInstruction
    e = Element('{%s}%s' % (TNS, root))
    e.text = '\n  '
    c = Comment(' before ')
    c.tail = ' '
    e.append(c)
    for i, s in enumerate(word):
        ns, ln = SYMBOLS[s]
        k = SubElement(e, '{%s}%s' % (ns, ln) if ns else ln)
        k.tail = '\n\t'
        x = Comment(f' c{i} ') if i % 2 == 0 else ProcessingInstruction('pi', f'n={i}')
        x.tail = '  '
        e.append(x)
    return e


def instance_text(word, root='r'):
    kids = ''
    for s in word:
        ns, ln = SYMBOLS[s]
        if ns == TNS:
            kids += f'<t:{ln}/>'
        elif ns:
            kids += f'<p1:{ln}/>'
        else:
            kids += f'<{ln}/>'
    return f'<t:{root} xmlns:t="{TNS}" xmlns:p1="{N1}">{kids}</t:{root}>'


# ---------------------------------------------------------------------------------------------
# Enumeration and sampling
def all_words(syms, maxlen):
    syms = sorted(syms)
    for n in range(maxlen + 1):
        yield from itertools.product(syms, repeat=n)


def enumerate_models(max_particles, names=('a', 'b'), occurs=OCCURS, leaf_kinds=('e',), kinds='sc',
                     max_depth=2, wild_cons=('any', 'other')):
    """All group-rooted models with at most max_particles particles (groups count as particles)."""
    def leaf_choices():
        for o in occurs:
            if 'e' in leaf_kinds:
                for n in names:
                    yield ('e', n, o[0], o[1])
            if 'w' in leaf_kinds:
                for c in wild_cons:
                    yield ('w', c, o[0], o[1])
            if 'h' in leaf_kinds:
                yield ('h', o[0], o[1])

    leafs = list(leaf_choices())

    def gen(budget, depth):
        """Yield (node, used) for particles using at most budget."""
        if budget < 1:
            return
        for lf in leafs:
            yield lf, 1
        if depth < max_depth and budget >= 2:
            for k in kinds:
                for o in occurs:
                    for kids, used in gen_children(budget - 1, depth + 1):
                        if len(kids) == 1 and not is_group(kids[0]) and o == (1, 1) and depth > 0:
                            continue  # pointless wrapper of a single leaf
                        yield (k, tuple(kids), o[0], o[1]), used + 1

    def gen_children(budget, depth):
        # non-empty lists of children using at most budget particles in total
        def rec(prefix, remaining):
            if prefix:
                yield list(prefix), sum(size(c) for c in prefix)
            if remaining < 1 or len(prefix) >= 3:
                return
            for node, used in gen(remaining, depth):
                yield from rec(prefix + [node], remaining - used)
        yield from rec([], budget)

    seen = set()
    for node, used in gen(max_particles, 0):
        if is_group(node) and node not in seen:
            seen.add(node)
            yield node


def sample_model(rng, max_depth=3, names=ELEMENT_NAMES, leaf_weights=None, kinds='sc', occurs=OCCURS,
                 max_children=3):
    """A seeded random model rooted at a group."""
    lw = leaf_weights or {'e': 8, 'w': 1, 'h': 1}
    kinds_l = list(lw)
    weights = [lw[k] for k in kinds_l]

    def pick_occurs(group=False):
        if rng.random() < (0.35 if group else 0.45):
            return (1, 1)
        return rng.choice(occurs)

    def leaf():
        k = rng.choices(kinds_l, weights)[0]
        o = pick_occurs()
        if k == 'e':
            return ('e', rng.choice(names), o[0], o[1])
        if k == 'w':
            return ('w', rng.choice(WILDCARD_CONS + WILDCARD_CONS_MORE if rng.random() < 0.3 else WILDCARD_CONS), o[0], o[1])
        return ('h', o[0], o[1])

    def group(depth):
        k = rng.choice(kinds)
        n = rng.randint(1, max_children)
        kids = []
        for _ in range(n):
            if depth < max_depth and rng.random() < 0.35:
                kids.append(group(depth + 1))
            else:
                kids.append(leaf())
        o = pick_occurs(True)
        return (k, tuple(kids), o[0], o[1])

    return group(1)


def sample_all_model(rng, version, names=ELEMENT_NAMES):
    """An xs:all model: 1.0 shape (elements, occurs 0/1) or 1.1 shape (occurs > 1, wildcards)."""
    n = rng.randint(1, 3)
    chosen = rng.sample(list(names), n)
    kids = []
    for nm in chosen:
        if version == '1.0':
            o = rng.choice(((0, 1), (1, 1)))
        else:
            o = rng.choice(((0, 1), (1, 1), (0, 2), (1, 2), (2, 2), (0, None), (1, None)))
        kids.append(('e', nm, o[0], o[1]))
    if version == '1.1' and rng.random() < 0.4:
        o = rng.choice(((0, 1), (1, 1), (0, 2), (0, None)))
        kids.append(('w', rng.choice(('other', 'local', 'n1')), o[0], o[1]))
    if version == '1.1' and rng.random() < 0.3:
        o = rng.choice(((0, 1), (1, 1), (0, 2)))
        kids.append(('h', o[0], o[1]))
    rng.shuffle(kids)
    o = rng.choice(((1, 1), (1, 1), (0, 1)))
    return ('a', tuple(kids), o[0], o[1])
