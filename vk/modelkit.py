"""Shared helpers for the content-model family (C01, C14, C15): library/arbiter access, shrinker."""
from vk import env
from vk.gen import models as M
from vk.ref import contentmodel as R

_cls = {}


def schema_class(version):
    if not _cls:
        xmlschema = env.activate_repo()
        _cls['1.0'] = xmlschema.XMLSchema10
        _cls['1.1'] = xmlschema.XMLSchema11
        _cls['exc'] = xmlschema.XMLSchemaException
        from xmlschema.validators.exceptions import XMLSchemaModelError, XMLSchemaParseError
        _cls['model_error'] = XMLSchemaModelError
        _cls['parse_error'] = XMLSchemaParseError
    return _cls[version]


_build_cache = {}


def build_model_schema(node, cfg, version, types=None):
    """('ok', schema) | ('model_error', exc) | ('parse_error', exc) | ('foreign', exc)."""
    cls = schema_class(version)
    text = M.render_schema(node, cfg, types)
    key = (version, text)
    hit = _build_cache.get(key)
    if hit is not None:
        return hit
    try:
        out = 'ok', cls(text)
    except _cls['model_error'] as e:
        out = 'model_error', e
    except _cls['exc'] as e:
        out = 'parse_error', e
    except Exception as e:
        out = 'foreign', e
    if len(_build_cache) >= 400:
        _build_cache.clear()
    _build_cache[key] = out
    return out


def lib_valid(schema, word):
    return schema.is_valid(M.instance_element(word))


_arb = {}


def arbiter_schema(node, cfg):
    """libxml2 schema for a 1.0-expressible model, or None if libxml2 refuses / not expressible."""
    if cfg.get('open'):
        return None
    key = (node, cfg.get('subst', 'plain'), cfg.get('groupref', False))
    if key not in _arb:
        if len(_arb) > 2000:
            _arb.clear()
        from lxml import etree
        try:
            _arb[key] = etree.XMLSchema(etree.fromstring(M.render_schema(node, cfg).encode()))
        except etree.XMLSchemaParseError:
            _arb[key] = None
    return _arb[key]


def arbiter_valid(node, cfg, word):
    """True/False from libxml2, None if it has no opinion."""
    s = arbiter_schema(node, cfg)
    if s is None:
        return None
    from lxml import etree
    return bool(s.validate(etree.fromstring(M.instance_text(word))))


def expressible_10(node):
    """No 1.1-only shapes: xs:all only at the root with element children of occurs 0/1."""
    def ok(n, top):
        if n[0] == 'a':
            if not top or M.occ(n) not in ((1, 1), (0, 1)):
                return False
            return all(c[0] in 'eht' and M.occ(c) in ((0, 1), (1, 1)) for c in n[1])
        if M.is_group(n):
            return all(ok(c, False) for c in n[1])
        if n[0] == 'w' and (M.con_base(n[1]) in M.NOT_ATTR or '~' in n[1]):
            return False     # notNamespace is XSD 1.1
        return True
    return ok(node, True)


# ---------------------------------------------------------------------------------------------
# Shrinker: greedy, deterministic, AST-level
SIMPLER_OCCURS = [(1, 1), (0, 1), (1, 2), (0, 2), (2, 2), (1, None), (0, None), (2, 3), (2, None), (0, 3)]


def _occ_rank(o):
    try:
        return SIMPLER_OCCURS.index(o)
    except ValueError:
        return len(SIMPLER_OCCURS)


def variants(node):
    """Strictly simpler variants of a model node (one edit each)."""
    k = node[0]
    mn, mx = M.occ(node)
    for o in SIMPLER_OCCURS:
        if _occ_rank(o) < _occ_rank((mn, mx)):
            yield node[:-2] + o
    if k == 'w' and node[1] != 'any':
        pass
    if M.is_group(node):
        kids = node[1]
        for i in range(len(kids)):
            if len(kids) > 1:
                yield (k, kids[:i] + kids[i + 1:], mn, mx)         # drop a child
            if M.is_group(kids[i]):
                yield kids[i]                                       # hoist a child group
                if M.occ(kids[i]) == (1, 1) and kids[i][0] == k:
                    yield (k, kids[:i] + kids[i][1] + kids[i + 1:], mn, mx)   # flatten
            elif len(kids) > 1 or (mn, mx) != (1, 1):
                yield ('s', (kids[i],), 1, 1)                       # keep only this leaf
            for v in variants(kids[i]):
                yield (k, kids[:i] + (v,) + kids[i + 1:], mn, mx)
        if k == 'c' and len(kids) == 1:
            yield ('s', kids, mn, mx)
        if k in 'ca':
            yield ('s', kids, mn, mx)


def word_variants(word):
    for i in range(len(word)):
        yield word[:i] + word[i + 1:]


def subwords(word):
    """The word itself, then its contiguous sub-words, longest first."""
    n = len(word)
    yield word
    for ln in range(n - 1, -1, -1):
        for i in range(0, n - ln + 1):
            yield word[i:i + ln]


def shrink(node, cfg, word, failing_word, max_steps=600):
    """Greedy descent. failing_word(node, cfg, words) -> first word of `words` on which the same
    kind of disagreement persists for (node, cfg), or None. Model edits may shorten the word."""
    steps = 0
    improved = True
    while improved and steps < max_steps:
        improved = False
        steps += 1
        w2 = failing_word(node, cfg, list(word_variants(word))) if word else None
        if w2 is not None:
            word = w2
            improved = True
            continue
        for simpler_cfg in cfg_variants(cfg):
            steps += 1
            w2 = failing_word(node, simpler_cfg, [word])
            if w2 is not None:
                cfg = simpler_cfg
                improved = True
                break
        if improved:
            continue
        seen = set()
        for v in variants(node):
            v = M.resync_siblings(v) if M.is_group(v) else v   # ##definedSibling names follow the model
            if v in seen or not M.is_group(v):
                continue
            seen.add(v)
            steps += 1
            if steps > max_steps:
                break
            w2 = failing_word(v, cfg, list(subwords(word)))
            if w2 is not None:
                node, word = v, w2
                improved = True
                break
    return canonical(node, cfg, word)


def cfg_variants(cfg):
    if cfg.get('groupref'):
        c = dict(cfg)
        c.pop('groupref')
        yield c
    if cfg.get('open'):
        c = dict(cfg)
        c.pop('open')
        yield c
    if cfg.get('subst', 'plain') != 'plain':
        c = dict(cfg)
        c['subst'] = 'plain'
        yield c


def canonical(node, cfg, word):
    """Rename a/b/c in order of first use in the model text."""
    order = []
    for lf in M.leaves(node):
        if lf[0] in 'et' and lf[1] not in order:
            order.append(lf[1])
    ren = {old: new for old, new in zip(order, M.ELEMENT_NAMES)}

    def rn(n):
        if n[0] == 'e':
            return ('e', ren[n[1]], n[2], n[3])
        if n[0] == 't':
            return ('t', ren[n[1]], n[2], n[3], n[4])
        if M.is_group(n):
            return (n[0], tuple(rn(c) for c in n[1]), n[2], n[3])
        return n
    return rn(node), cfg, tuple(ren.get(s, s) for s in word)


def cfg_text(cfg):
    parts = []
    if cfg.get('subst', 'plain') != 'plain':
        parts.append('subst=' + cfg['subst'])
    if cfg.get('open'):
        parts.append('open=%s:%s' % tuple(cfg['open']))
    if cfg.get('groupref'):
        parts.append('groupref')
    if cfg.get('groupref_root'):
        parts.append('model-is-a-reference-to-a-named-group')
    if cfg.get('two_heads'):
        parts.append('two-heads')
    return ' [' + ' '.join(parts) + ']' if parts else ''


def witness_text(node, cfg, word, version=None):
    return f'{M.text(node)}{cfg_text(cfg)} :: {"".join(word) or "<empty>"}' + (f' ({version})' if version else '')
