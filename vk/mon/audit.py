"""Interpreter audit events: open / urllib.Request / socket. One hook per process, window flag."""
import os
import sys

_state = {'on': False, 'events': [], 'installed': False}


def _hook(event, args):
    if not _state['on']:
        return
    if event == 'open':
        path = args[0]
        if isinstance(path, bytes):
            path = path.decode('utf-8', 'replace')
        if isinstance(path, str):
            _state['events'].append(('open', path, args[1] if len(args) > 1 else None))
    elif event == 'urllib.Request':
        _state['events'].append(('urllib.Request', str(args[0]), None))
    elif event in ('socket.connect', 'socket.getaddrinfo'):
        _state['events'].append((event, str(args[1:] if event == 'socket.connect' else args[:2]), None))
    elif event in ('os.listdir', 'os.scandir'):
        _state['events'].append((event, str(args[0]), None))


def install():
    if not _state['installed']:
        sys.addaudithook(_hook)
        _state['installed'] = True


class window:
    """with audit.window() as ev: ...  -> ev is the list of (event, arg, mode) recorded inside."""

    def __enter__(self):
        install()
        _state['events'] = []
        _state['on'] = True
        return _state['events']

    def __exit__(self, *a):
        _state['on'] = False


def opened_paths(events):
    out = []
    for ev, arg, mode in events:
        if ev == 'open':
            try:
                out.append(os.path.realpath(arg))
            except (OSError, ValueError):
                out.append(arg)
    return out
