"""sys.monitoring based probes: anchored-line coverage, function entry counters, failpoints.

Only observation, no source edits. Cost: a LINE callback returns DISABLE after its first hit,
so line coverage costs one event per line per process.
"""
import os
import sys
import types

mon = sys.monitoring
TOOL_COV = 3      # free tool ids: 3, 4 (0-2, 5 are reserved names by convention)
TOOL_CALLS = 4


def _code_objects(code):
    yield code
    for c in code.co_consts:
        if isinstance(c, types.CodeType):
            yield from _code_objects(c)


def statement_lines(path, ranges):
    """Lines with code inside the given (lo, hi) ranges of a source file."""
    with open(path, 'rb') as f:
        src = f.read()
    top = compile(src, path, 'exec', dont_inherit=True)
    lines = set()
    for code in _code_objects(top):
        for _, _, ln in code.co_lines():
            if ln is not None and any(lo <= ln <= hi for lo, hi in ranges):
                lines.add(ln)
    return lines


class LineCoverage:
    """Which statement lines of the anchored regions were executed in this process."""

    def __init__(self, repo_root, anchors):
        # anchors: {relative path: [(lo, hi), ...]}
        self.repo_root = repo_root
        self.anchors = {os.path.join(repo_root, k): v for k, v in anchors.items()}
        self.hits = set()
        self.active = False

    def start(self):
        if self.active or not self.anchors:
            return
        try:
            mon.use_tool_id(TOOL_COV, 'vk-linecov')
        except ValueError:
            return
        self.active = True
        mon.register_callback(TOOL_COV, mon.events.LINE, self._on_line)
        mon.set_events(TOOL_COV, mon.events.LINE)

    def _on_line(self, code, line):
        ranges = self.anchors.get(code.co_filename)
        if ranges is not None:
            for lo, hi in ranges:
                if lo <= line <= hi:
                    self.hits.add((code.co_filename, line))
                    break
        return mon.DISABLE

    def stop(self):
        if self.active:
            mon.set_events(TOOL_COV, 0)
            mon.register_callback(TOOL_COV, mon.events.LINE, None)
            mon.free_tool_id(TOOL_COV)
            self.active = False

    def report(self):
        return sorted(f"{os.path.relpath(f, self.repo_root)}:{ln}" for f, ln in self.hits)


def anchored_totals(repo_root, anchors):
    total = {}
    for rel, ranges in anchors.items():
        try:
            total[rel] = sorted(statement_lines(os.path.join(repo_root, rel), ranges))
        except (OSError, SyntaxError):
            total[rel] = []
    return total


class CallCounter:
    """PY_START counters on chosen functions (by code object)."""

    def __init__(self):
        self.counts = {}
        self.codes = {}
        self.active = False
        self.on_call = None  # optional callback(name)

    def watch(self, name, func):
        func = getattr(func, '__wrapped__', func)
        code = getattr(func, '__code__', None)
        if code is None:
            code = func.__func__.__code__
        self.codes[code] = name
        self.counts.setdefault(name, 0)
        if self.active:
            mon.set_local_events(TOOL_CALLS, code, mon.events.PY_START)

    def start(self):
        if self.active:
            return
        mon.use_tool_id(TOOL_CALLS, 'vk-calls')
        mon.register_callback(TOOL_CALLS, mon.events.PY_START, self._on_start)
        for code in self.codes:
            mon.set_local_events(TOOL_CALLS, code, mon.events.PY_START)
        self.active = True

    def _on_start(self, code, offset):
        name = self.codes.get(code)
        if name is not None:
            self.counts[name] += 1
            if self.on_call is not None:
                self.on_call(name)

    def reset(self):
        for k in self.counts:
            self.counts[k] = 0

    def stop(self):
        if self.active:
            for code in self.codes:
                mon.set_local_events(TOOL_CALLS, code, 0)
            mon.register_callback(TOOL_CALLS, mon.events.PY_START, None)
            mon.free_tool_id(TOOL_CALLS)
            self.active = False
