"""Per-case wall-clock watchdog (main thread only). Firing is inconclusive, never a violation."""
import signal
from contextlib import contextmanager


class WatchdogFired(BaseException):
    """BaseException so that `except Exception` in the code under observation cannot eat it."""


def _handler(signum, frame):
    raise WatchdogFired()


@contextmanager
def limit(seconds):
    old = signal.signal(signal.SIGALRM, _handler)
    signal.setitimer(signal.ITIMER_REAL, seconds)
    try:
        yield
    finally:
        signal.setitimer(signal.ITIMER_REAL, 0)
        signal.signal(signal.SIGALRM, old)
