"""Independent evaluator for the error-path syntax the library emits; identity-error recogniser."""
import re


def eval_path(root, path, namespaces):
    """Independent evaluator for the path syntax emitted by the library. Returns list of nodes."""
    if not path or not path.startswith('/'):
        return []
    steps = path[1:].split('/')
    # split must not cut inside {uri}: re-join pieces
    fixed, buf = [], ''
    for s in steps:
        buf = s if not buf else buf + '/' + s
        if buf.count('{') == buf.count('}'):
            fixed.append(buf)
            buf = ''
    steps = fixed

    def expand(name):
        if name.startswith('{'):
            return name
        if ':' in name:
            p, ln = name.split(':', 1)
            return '{%s}%s' % (namespaces[p], ln)
        d = namespaces.get('')
        return '{%s}%s' % (d, name) if d else name

    def parse(step):
        pos = None
        if step.endswith(']') and '[' in step:
            step, p = step[:-1].rsplit('[', 1)
            pos = int(p)
        return expand(step), pos

    tag, pos = parse(steps[0])
    if root.tag != tag or pos not in (None, 1):
        return []
    cur = [root]
    for step in steps[1:]:
        tag, pos = parse(step)
        nxt = []
        for n in cur:
            same = [c for c in n if c.tag == tag]
            if pos is None:
                nxt.extend(same)
            elif 1 <= pos <= len(same):
                nxt.append(same[pos - 1])
        cur = nxt
    return cur


def index_paths(root):
    """id(element) -> index path, for a tree without comments/PIs."""
    out = {}

    def rec(e, p):
        out[id(e)] = p
        k = 0
        for c in e:
            if callable(c.tag):
                continue
            rec(c, p + (k,))
            k += 1
    rec(root, ())
    return out


IDENTITY_RE = re.compile(r"(duplicated value|not found for Xsd|missing key field|IDREF|field selects|duplicated xs:ID|"
                         r"no more than one attribute of type ID)")


def is_identity_error(e):
    """Errors of document-wide identity constraints (key/keyref/unique, ID/IDREF)."""
    return bool(IDENTITY_RE.search(e.reason or ''))


_ADDR = re.compile(r' at 0x[0-9a-fA-F]+')


def clean_reason(reason):
    """Reasons may embed repr() of objects with memory addresses; strip them before comparing."""
    return _ADDR.sub('', reason or '')
