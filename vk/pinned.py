"""
Frozen copies of library modules (vk/ref/pinned_src/, verbatim from the /repo commit named in COMMIT) run *inside the
live package*: the copy is loaded under a name in the package's namespace, so its relative imports resolve to the live
sibling modules and its classes work on the live component objects.

These copies are not oracles. They give the listed findings of a check an identity: a wrong verdict of the tree under
test is a listed weakness when the pinned procedure gives the same verdict for the same input, and something new when
the tree decides differently from it (and wrongly according to the check's reference).
"""
import contextlib
import importlib.util
import os
import sys

from vk import env

SRC = os.path.join(env.VERIF_DIR, 'vk', 'ref', 'pinned_src')
_loaded = {}


def load(modname):
    """modname like 'xmlschema.validators.models' -> module object of the frozen copy."""
    if modname in _loaded:
        return _loaded[modname]
    env.activate_repo()
    pkg, _, leaf = modname.rpartition('.')
    fname = os.path.join(SRC, modname.split('.', 1)[1].replace('.', '_') + '.py')
    name = f'{pkg}._vk_pinned_{leaf}'
    spec = importlib.util.spec_from_file_location(name, fname)
    mod = importlib.util.module_from_spec(spec)
    sys.modules[name] = mod
    spec.loader.exec_module(mod)
    _loaded[modname] = mod
    return mod


@contextlib.contextmanager
def swapped(assignments):
    """assignments: [(object, attribute name, new value)]; restored on exit."""
    saved = []
    try:
        for obj, attr, new in assignments:
            saved.append((obj, attr, obj.__dict__[attr] if isinstance(obj, type) else getattr(obj, attr)))
            setattr(obj, attr, new)
        yield
    finally:
        for obj, attr, old in reversed(saved):
            setattr(obj, attr, old)


def pinned_model_visitors():
    """Context manager: the model visitors used by XsdGroup are the pinned ones."""
    import xmlschema.validators.groups as live_groups
    pm = load('xmlschema.validators.models')
    return swapped([(live_groups, n, getattr(pm, n)) for n in ('ModelVisitor', 'InterleavedModelVisitor', 'SuffixedModelVisitor')])


def pinned_restriction_checker():
    """Context manager: every method whose name says 'restriction' on the particle classes (groups, elements, element
    wildcards, particle mixin) is the pinned one. Schemas must be built inside the context to get the pinned verdict."""
    import xmlschema.validators.groups as lg
    import xmlschema.validators.elements as le
    import xmlschema.validators.wildcards as lw
    import xmlschema.validators.particles as lp
    if 'restriction' in _loaded:
        return swapped(_loaded['restriction'])
    todo = []
    for live, name in ((lg, 'groups'), (le, 'elements'), (lw, 'wildcards'), (lp, 'particles')):
        pm = load('xmlschema.validators.' + name)
        rebind = {}
        for cname, pcls in list(vars(pm).items()):
            lcls = getattr(live, cname, None)
            if not isinstance(pcls, type) or not isinstance(lcls, type) or pcls.__module__ != pm.__name__:
                continue
            rebind[cname] = lcls
            for attr, val in vars(pcls).items():
                if 'restriction' in attr and callable(val) and attr in vars(lcls):
                    # the raw function: the schema_cache wrapper of the copy is not registered in the caches of
                    # global maps built before the copy was loaded (the meta-schemas)
                    raw = getattr(val, '__wrapped__', val)
                    if '__class__' in raw.__code__.co_freevars:
                        continue     # zero-argument super() is bound to the copy's class: the live method stays
                    todo.append((lcls, attr, raw))
        # inside the copied functions the class names of their module mean the live classes (isinstance checks)
        vars(pm).update(rebind)
    _loaded['restriction'] = todo
    return swapped(todo)
