"""Reference semantics of XSD content models, independent of the library's data structures.

Two formulations of the language (must agree before a case is judged):
  A  `in_language_ends`: recursive set-of-end-positions matcher with occurrence counting,
     multiset matching for xs:all, subsequence removal for interleaved open content.
  B  `in_language_deriv`: Brzozowski derivatives with counting and shuffle operators.
Two formulations of determinism (UPA):
  A  `upa_glushkov`: position automaton of the model with occurrence ranges unrolled; clash = two
     positions of different particles with overlapping symbol sets in first or in one follow set.
  B  `upa_derivative`: exploration of the derivative automaton over *marked* symbols; clash = a
     reachable state whose first-set holds two different particles with overlapping symbols.
In XSD 1.1 an element particle competing with a wildcard is not a clash.
A third reading for 1.1 (`in_language_priority`) resolves element/wildcard competition in
favour of the element at every step (validation-path rule); where it differs from the plain
language the case is tagged 'competition' by callers and not judged.
"""
from vk.gen import models as M

# ---------------------------------------------------------------------------------------------
# Leaf table: every leaf particle gets an id (its path in the AST) and a symbol set


class Model:
    def __init__(self, node, cfg=None):
        # a particle with maxOccurs=0 stands for no particle at all (XSD 1.0 3.9.2, XSD 1.1 3.9.2): it is not an empty
        # branch of a choice; a choice left without particles matches nothing, an empty sequence matches the empty sequence
        self.node = M.drop_absent(M.to_tuple(node))
        self.cfg = dict(cfg or {})
        self.subst = self.cfg.get('subst', 'plain')
        self.leaf_syms = {}    # lid -> frozenset(symbols)
        self.leaf_kind = {}    # lid -> 'e' | 'w' (head refs are element particles)
        self.leaf_node = {}
        self.expr = self._expr(self.node, ())
        self.open = self.cfg.get('open')
        if self.open:
            mode, con = self.open
            lid = ('open',)
            self.leaf_syms[lid] = frozenset(s for s in M.SYMBOLS if M.wildcard_admits(con, s))
            self.leaf_kind[lid] = 'w'
            self.leaf_node[lid] = ('w', con, 0, None)
            wild = N(('L', lid), 0, None)
            self.full_expr = I(self.expr, wild) if mode == 'interleave' else S(self.expr, wild)
        else:
            self.full_expr = self.expr

    def _expr(self, node, path):
        k = node[0]
        mn, mx = M.occ(node)
        if k in 'ehwtr':
            self.leaf_syms[path] = frozenset(M.leaf_symbols(node, self.subst))
            self.leaf_kind[path] = 'w' if k == 'w' else 'e'
            self.leaf_node[path] = node
            return N(('L', path), mn, mx)
        kids = [self._expr(c, path + (i,)) for i, c in enumerate(node[1])]
        if k == 's':
            e = ONE
            for x in reversed(kids):
                e = S(x, e)
        elif k == 'c':
            e = ZERO
            for x in kids:
                e = C(x, e)
        else:
            e = ONE
            for x in reversed(kids):
                e = I(x, e)
        return N(e, mn, mx)


# ---------------------------------------------------------------------------------------------
# Expressions with smart constructors
ZERO = ('0',)
ONE = ('1',)


def S(a, b):
    if a == ZERO or b == ZERO:
        return ZERO
    if a == ONE:
        return b
    if b == ONE:
        return a
    return ('S', a, b)


def C(a, b):
    if a == ZERO:
        return b
    if b == ZERO:
        return a
    if a == b:
        return a
    if a[0] == 'C':     # flatten + dedupe to keep derivative states canonical
        items = _alts(a) | _alts(b)
    else:
        items = _alts(a) | _alts(b)
    items = sorted(items, key=repr)
    out = items[-1]
    for x in reversed(items[:-1]):
        out = ('C', x, out)
    return out


def _alts(e):
    if e[0] == 'C':
        return _alts(e[1]) | _alts(e[2])
    return {e}


def I(a, b):
    if a == ZERO or b == ZERO:
        return ZERO
    if a == ONE:
        return b
    if b == ONE:
        return a
    return ('I', a, b)


def N(e, mn, mx):
    if mx == 0:
        return ONE
    if e == ZERO:
        return ONE if mn == 0 else ZERO
    if e == ONE:
        return ONE
    if (mn, mx) == (1, 1):
        return e
    return ('N', e, mn, mx)


_null_cache = {}


def nullable(e):
    r = _null_cache.get(e)
    if r is None:
        k = e[0]
        if k == '1':
            r = True
        elif k in '0L':
            r = False
        elif k in 'SI':
            r = nullable(e[1]) and nullable(e[2])
        elif k == 'C':
            r = nullable(e[1]) or nullable(e[2])
        else:
            r = e[2] == 0 or nullable(e[1])
        if len(_null_cache) > 200000:
            _null_cache.clear()
        _null_cache[e] = r
    return r


def deriv(e, pred):
    """Derivative with respect to 'one symbol consumed by a leaf for which pred(lid) holds'."""
    k = e[0]
    if k in '01':
        return ZERO
    if k == 'L':
        return ONE if pred(e[1]) else ZERO
    if k == 'S':
        d = S(deriv(e[1], pred), e[2])
        if nullable(e[1]):
            d = C(d, deriv(e[2], pred))
        return d
    if k == 'C':
        return C(deriv(e[1], pred), deriv(e[2], pred))
    if k == 'I':
        return C(I(deriv(e[1], pred), e[2]), I(e[1], deriv(e[2], pred)))
    # counted
    _, body, mn, mx = e
    rest = N(body, max(mn - 1, 0), None if mx is None else mx - 1)
    return S(deriv(body, pred), rest)


def first_leaves(e):
    """Leaf ids that can consume the first symbol of some word of e (e contains no ZERO)."""
    k = e[0]
    if k in '01':
        return set()
    if k == 'L':
        return {e[1]}
    if k == 'S':
        f = first_leaves(e[1])
        if nullable(e[1]):
            f = f | first_leaves(e[2])
        return f
    if k in 'CI':
        return first_leaves(e[1]) | first_leaves(e[2])
    return first_leaves(e[1])


# ---------------------------------------------------------------------------------------------
# Language, formulation B (derivatives)
def in_language_deriv(model, word):
    e = model.full_expr
    for sym in word:
        e = deriv(e, lambda lid: sym in model.leaf_syms[lid])
        if e == ZERO:
            return False
    return nullable(e)


def in_language_priority(model, word):
    """1.1 reading: at each step element particles win over wildcards when both can proceed."""
    e = model.full_expr
    for sym in word:
        de = deriv(e, lambda lid: model.leaf_kind[lid] == 'e' and sym in model.leaf_syms[lid])
        if de != ZERO:
            e = de
        else:
            e = deriv(e, lambda lid: model.leaf_kind[lid] == 'w' and sym in model.leaf_syms[lid])
            if e == ZERO:
                return False
    return nullable(e)


# ---------------------------------------------------------------------------------------------
# Language, formulation A (end positions on the AST)
def in_language_ends(model, word):
    word = tuple(word)
    n = len(word)
    subst = model.subst

    def once(node, i):
        """End positions of one occurrence of node's body starting at i."""
        k = node[0]
        if k in 'ehwtr':
            if i < n and word[i] in M.leaf_symbols(node, subst):
                return {i + 1}
            return set()
        if k == 's':
            cur = {i}
            for c in node[1]:
                nxt = set()
                for p in cur:
                    nxt |= ends(c, p)
                cur = nxt
                if not cur:
                    break
            return cur
        if k == 'c':
            out = set()
            for c in node[1]:
                out |= ends(c, i)
            return out
        # all: every j such that word[i:j] can be distributed over the children
        out = set()
        for j in range(i, n + 1):
            if all_match(node[1], word[i:j]):
                out.add(j)
        return out

    def all_match(children, seg):
        # assignment of each symbol to one child whose symbol set holds it; counts within occurs
        if any(M.is_group(c) for c in children):
            raise NotImplementedError('groups inside xs:all')
        sets = [M.leaf_symbols(c, subst) for c in children]

        def rec(idx, counts):
            if idx == len(seg):
                return all(M.occ(c)[0] <= counts[q] for q, c in enumerate(children))
            for q, c in enumerate(children):
                if seg[idx] in sets[q] and (M.occ(c)[1] is None or counts[q] < M.occ(c)[1]):
                    counts[q] += 1
                    ok = rec(idx + 1, counts)
                    counts[q] -= 1
                    if ok:
                        return True
            return False
        return rec(0, [0] * len(children))

    memo = {}

    def ends(node, i):
        key = (id(node), i)
        if key in memo:
            return memo[key]
        mn, mx = M.occ(node)
        result = set()
        if mn == 0:
            result.add(i)
        cur = {i}
        k = 0
        seen = set()
        while cur and (mx is None or k < mx):
            nxt = set()
            for p in cur:
                nxt |= once(node, p)
            k += 1
            if k >= mn:
                result |= nxt
            if mx is None and k >= mn:
                if nxt <= seen:
                    break
                seen |= nxt
            cur = nxt
        memo[key] = result
        return result

    if not model.open:
        return n in ends(model.node, 0)
    mode, con = model.open
    admitted = [M.wildcard_admits(con, s) for s in word]
    if mode == 'suffix':
        for cut in range(n, -1, -1):
            if all(admitted[cut:]):
                if cut in ends(model.node, 0):
                    return True
            else:
                break
        return False
    # interleave: remove any subsequence of admitted symbols
    idxs = [i for i in range(n) if admitted[i]]
    full = word
    for mask in range(1 << len(idxs)):
        drop = {idxs[b] for b in range(len(idxs)) if mask >> b & 1}
        w2 = tuple(s for i, s in enumerate(full) if i not in drop)
        if Model(model.node, {'subst': subst}).accepts_plain(w2):
            return True
    return False


def _accepts_plain(self, word):
    return in_language_ends(self, word)


Model.accepts_plain = _accepts_plain


# ---------------------------------------------------------------------------------------------
# Determinism
def leaves_overlap(model, l1, l2, version):
    """Do two different particles compete for some symbol (as a UPA clash in that version)?"""
    if not (model.leaf_syms[l1] & model.leaf_syms[l2]):
        # wildcards stand for infinitely many names: two wildcards clash iff constraints intersect
        k1, k2 = model.leaf_kind[l1], model.leaf_kind[l2]
        if k1 == 'w' and k2 == 'w':
            return wild_sets_intersect(model.leaf_node[l1][1], model.leaf_node[l2][1])
        return False
    k1, k2 = model.leaf_kind[l1], model.leaf_kind[l2]
    if version == '1.1' and k1 != k2:
        return False
    return True


def wild_sets_intersect(c1, c2):
    (k1, a), (k2, b) = M.WILDCARD_SETS[M.con_base(c1)], M.WILDCARD_SETS[M.con_base(c2)]
    if k1 == 'in' and k2 == 'in':
        return bool(a & b)
    if k1 == 'in':
        return bool(a - b)
    if k2 == 'in':
        return bool(b - a)
    return True     # two complements of finite sets always share a namespace


def upa_derivative(model, version, max_states=4000):
    """None if deterministic, else a witness dict; 'unknown' if the exploration was cut."""
    start = model.full_expr
    seen = {start}
    todo = [(start, ())]
    while todo:
        e, trail = todo.pop()
        fl = sorted(first_leaves(e), key=repr)
        for i, l1 in enumerate(fl):
            for l2 in fl[i + 1:]:
                if leaves_overlap(model, l1, l2, version):
                    return {'after': trail, 'particles': [l1, l2]}
        for lid in fl:
            d = deriv(e, lambda x, lid=lid: x == lid)
            if d != ZERO and d not in seen:
                if len(seen) >= max_states:
                    return 'unknown'
                seen.add(d)
                todo.append((d, trail + (lid,)))
    return None


def upa_glushkov(model, version, max_positions=600):
    """Position automaton with occurrence ranges unrolled. Returns None / witness / 'unknown'."""
    positions = []      # index -> lid

    class TooBig(Exception):
        pass

    def build(e):
        """Return (nullable, first, last) and fill follow; e is an expression of the engine."""
        k = e[0]
        if k == '1':
            return True, set(), set()
        if k == '0':
            return False, set(), set()     # a choice without particles: matches nothing, has no positions
        if k == 'L':
            if len(positions) >= max_positions:
                raise TooBig()
            positions.append(e[1])
            follow.append(set())
            p = len(positions) - 1
            return False, {p}, {p}
        if k == 'S':
            n1, f1, l1 = build(e[1])
            n2, f2, l2 = build(e[2])
            for p in l1:
                follow[p] |= f2
            return n1 and n2, f1 | (f2 if n1 else set()), l2 | (l1 if n2 else set())
        if k == 'C':
            n1, f1, l1 = build(e[1])
            n2, f2, l2 = build(e[2])
            return n1 or n2, f1 | f2, l1 | l2
        if k == 'I':
            raise NotImplementedError
        _, body, mn, mx = e
        # unrolled: mn mandatory copies, then (mx-mn) nested optional copies or a starred copy
        copies = []
        total = mn if mx is None else mx
        if mx is None:
            total = max(mn, 1)
        for _ in range(total):
            copies.append(build(body))
        n_tail, f_tail, l_tail = True, set(), set()
        for idx in range(len(copies) - 1, -1, -1):
            cn, cf, cl = copies[idx]
            # seq(copy, tail)
            for p in cl:
                follow[p] |= f_tail
            n_seq = cn and n_tail
            f_seq = cf | (f_tail if cn else set())
            l_seq = l_tail | (cl if n_tail else set())
            if idx >= mn:
                n_seq = True    # optional: (copy, tail)?
            n_tail, f_tail, l_tail = n_seq, f_seq, l_seq
        if mx is None:
            # the last copy is starred
            cn, cf, cl = copies[-1]
            for p in cl:
                follow[p] |= cf
        return n_tail, f_tail, l_tail

    follow = []
    node = model.node
    try:
        if node[0] == 'a' or model.open and model.open[0] == 'interleave':
            return _upa_all_special(model, version)
        n0, f0, l0 = build(model.full_expr)
    except TooBig:
        return 'unknown'
    except NotImplementedError:
        return 'unknown'

    def clash(ps, where):
        ps = sorted(ps)
        for i, p in enumerate(ps):
            for q in ps[i + 1:]:
                if positions[p] != positions[q] and leaves_overlap(model, positions[p], positions[q], version):
                    return {'where': where, 'particles': [positions[p], positions[q]]}
        return None

    w = clash(f0, 'first')
    if w:
        return w
    for p, fs in enumerate(follow):
        w = clash(fs, ('follow', positions[p]))
        if w:
            return w
    return None


def _upa_all_special(model, version):
    """xs:all at the top (or interleaved open content): all particles compete at all times."""
    lids = sorted(model.leaf_syms, key=repr)
    node = model.node
    if node[0] == 'a':
        for i, l1 in enumerate(lids):
            for l2 in lids[i + 1:]:
                if leaves_overlap(model, l1, l2, version):
                    return {'where': 'all', 'particles': [l1, l2]}
        return None
    # interleaved open content over a non-all model: the model itself must be deterministic and
    # the open wildcard only competes with element particles (never a clash in 1.1) or with
    # wildcards of the model (a clash if the sets intersect)
    inner = Model(node, {'subst': model.subst})
    w = upa_glushkov(inner, version)
    if w:
        return w
    for lid in inner.leaf_syms:
        if leaves_overlap(model, lid, ('open',), version):
            return {'where': 'open', 'particles': [lid, ('open',)]}
    return None


def deterministic(model, version):
    """(verdict, detail): verdict in True / False / None (formulations disagree or unknown)."""
    a = upa_glushkov(model, version)
    b = upa_derivative(model, version)
    if a == 'unknown' or b == 'unknown':
        return None, 'unknown'
    if (a is None) != (b is None):
        return None, {'glushkov': a, 'derivative': b}
    return a is None, a


def has_competition(model):
    """Does some element particle share a symbol with some wildcard particle of the model?"""
    for l1 in model.leaf_syms:
        for l2 in model.leaf_syms:
            if model.leaf_kind[l1] == 'e' and model.leaf_kind[l2] == 'w' and \
                    model.leaf_syms[l1] & model.leaf_syms[l2]:
                return True
    return False


def in_language(model, word):
    """(verdict, ok): ok False when the two formulations disagree."""
    a = in_language_ends(model, word)
    b = in_language_deriv(model, word)
    return a, a == b


def edc_violation(model):
    """Two element particles with the same name and different types (Element Declarations Consistent)."""
    seen = {}
    for lid, node in sorted(model.leaf_node.items(), key=repr):
        if node[0] == 'w':
            continue
        typ = node[2] if node[0] == 't' else 'string'
        names = model.leaf_syms[lid] if node[0] != 'h' else {'h', 'm', 'k', 'j'}
        for nm in names:
            if nm in seen and seen[nm][0] != typ:
                return {'name': nm, 'particles': [seen[nm][1], lid]}
            seen.setdefault(nm, (typ, lid))
    return None
