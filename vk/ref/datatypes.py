"""Reference lexical / value spaces of the XSD built-in atomic types (written from XSD Part 2).

`lexical_ok(type, text, version)` decides membership of the *whitespace-normalised* text in the
lexical space; `value(type, text)` maps a valid text to a Python value for equality and order
(int, Decimal, float, bool, tuples for date/time, (months, seconds) for durations, bytes).
Tolerances are explicit in `TOLERATED` (types for which only "any string" is modelled).
"""
import base64
import math
import re
from decimal import Decimal

WS_COLLAPSE = 'collapse'
WS_REPLACE = 'replace'
WS_PRESERVE = 'preserve'

INTEGER_RANGES = {
    'integer': (None, None), 'long': (-2**63, 2**63 - 1), 'int': (-2**31, 2**31 - 1), 'short': (-2**15, 2**15 - 1),
    'byte': (-128, 127), 'nonNegativeInteger': (0, None), 'positiveInteger': (1, None),
    'unsignedLong': (0, 2**64 - 1), 'unsignedInt': (0, 2**32 - 1), 'unsignedShort': (0, 2**16 - 1),
    'unsignedByte': (0, 255), 'nonPositiveInteger': (None, 0), 'negativeInteger': (None, -1),
}
STRING_TYPES = ('string', 'normalizedString', 'token', 'language', 'Name', 'NCName', 'NMTOKEN', 'anyURI')
DATE_TYPES = ('dateTime', 'date', 'time', 'gYearMonth', 'gYear', 'gMonthDay', 'gDay', 'gMonth', 'dateTimeStamp')
DURATION_TYPES = ('duration', 'dayTimeDuration', 'yearMonthDuration')
ALL_TYPES = tuple(INTEGER_RANGES) + ('decimal', 'float', 'double', 'boolean', 'hexBinary', 'base64Binary') + \
    STRING_TYPES + DATE_TYPES + DURATION_TYPES
ONLY_11 = ('dateTimeStamp', 'dayTimeDuration', 'yearMonthDuration')
TOLERATED = ('anyURI',)


def whitespace(typ):
    if typ == 'string':
        return WS_PRESERVE
    if typ == 'normalizedString':
        return WS_REPLACE
    return WS_COLLAPSE


def normalize(typ, text):
    ws = whitespace(typ)
    if ws == WS_PRESERVE:
        return text
    text = re.sub('[\t\n\r]', ' ', text)
    if ws == WS_REPLACE:
        return text
    return re.sub(' +', ' ', text).strip(' ')


_INT = re.compile(r'[+-]?[0-9]+\Z')
_DEC = re.compile(r'[+-]?([0-9]+(\.[0-9]*)?|\.[0-9]+)\Z')
_FLT = re.compile(r'([+-]?([0-9]+(\.[0-9]*)?|\.[0-9]+)([Ee][+-]?[0-9]+)?|-?INF|NaN)\Z')
_FLT11 = re.compile(r'([+-]?([0-9]+(\.[0-9]*)?|\.[0-9]+)([Ee][+-]?[0-9]+)?|[+-]?INF|NaN)\Z')
_TZ = r'(Z|[+-](0[0-9]|1[0-3]):[0-5][0-9]|[+-]14:00)?'
_YEAR = r'-?([1-9][0-9]{3,}|0[0-9]{3})'
_DATE = re.compile(rf'({_YEAR})-([0-9]{{2}})-([0-9]{{2}}){_TZ}\Z')
_TIME_PART = r'([0-9]{2}):([0-9]{2}):([0-9]{2}(\.[0-9]+)?)'
_DATETIME = re.compile(rf'({_YEAR})-([0-9]{{2}})-([0-9]{{2}})T{_TIME_PART}{_TZ}\Z')
_TIME = re.compile(rf'{_TIME_PART}{_TZ}\Z')
_GYM = re.compile(rf'({_YEAR})-([0-9]{{2}}){_TZ}\Z')
_GY = re.compile(rf'({_YEAR}){_TZ}\Z')
_GMD = re.compile(rf'--([0-9]{{2}})-([0-9]{{2}}){_TZ}\Z')
_GD = re.compile(rf'---([0-9]{{2}}){_TZ}\Z')
_GM = re.compile(rf'--([0-9]{{2}}){_TZ}\Z')
_DUR = re.compile(r'-?P(([0-9]+)Y)?(([0-9]+)M)?(([0-9]+)D)?(T(([0-9]+)H)?(([0-9]+)M)?(([0-9]+(\.[0-9]+)?)S)?)?\Z')
_HEX = re.compile(r'([0-9a-fA-F]{2})*\Z')
_B64 = re.compile(r'(([A-Za-z0-9+/] ?){4})*(([A-Za-z0-9+/] ?){3}[A-Za-z0-9+/]|([A-Za-z0-9+/] ?){2}[AEIMQUYcgkosw048] ?=|'
                  r'[A-Za-z0-9+/] ?[AQgw] ?= ?=)?\Z')
_LANG = re.compile(r'[a-zA-Z]{1,8}(-[a-zA-Z0-9]{1,8})*\Z')
# ASCII-centred name classes (test strings stay within ASCII plus a few Latin-1 letters)
_NAMESTART = r'[A-Za-z_:À-ÖØ-öø-ÿ]'
_NAMECHAR = r'[A-Za-z0-9_:.\-·À-ÖØ-öø-ÿ]'
_NAME = re.compile(rf'{_NAMESTART}{_NAMECHAR}*\Z')
_NCNAME = re.compile(rf'{_NAMESTART.replace(":", "")}{_NAMECHAR.replace(":", "")}*\Z')
_NMTOKEN = re.compile(rf'{_NAMECHAR}+\Z')


def _days_in_month(y, m):
    if m in (1, 3, 5, 7, 8, 10, 12):
        return 31
    if m in (4, 6, 9, 11):
        return 30
    if y is None:
        return 29
    leap = (y % 4 == 0 and y % 100 != 0) or y % 400 == 0
    return 29 if leap else 28


def _year_ok(ys, version):
    y = int(ys)
    if y == 0 and version == '1.0':
        return False
    if ys.lstrip('-') == '0000' and ys.startswith('-'):
        return version != '1.0'   # -0000 follows the year-zero rule
    return True


def _time_ok(h, mi, s):
    h, mi, sec = int(h), int(mi), float(s)
    if h == 24:
        return mi == 0 and sec == 0
    return h <= 23 and mi <= 59 and sec < 60


def lexical_ok(typ, text, version='1.0'):
    """Is the whitespace-normalised `text` in the lexical space (and value range) of built-in `typ`?"""
    if typ in INTEGER_RANGES:
        if not _INT.match(text):
            return False
        v = int(text)
        lo, hi = INTEGER_RANGES[typ]
        return (lo is None or v >= lo) and (hi is None or v <= hi)
    if typ == 'decimal':
        return bool(_DEC.match(text))
    if typ in ('float', 'double'):
        return bool((_FLT11 if version == '1.1' else _FLT).match(text))
    if typ == 'boolean':
        return text in ('true', 'false', '1', '0')
    if typ in ('string', 'normalizedString', 'token', 'anyURI'):
        return True
    if typ == 'language':
        return bool(_LANG.match(text))
    if typ == 'Name':
        return bool(_NAME.match(text))
    if typ == 'NCName':
        return bool(_NCNAME.match(text))
    if typ == 'NMTOKEN':
        return bool(_NMTOKEN.match(text))
    if typ == 'hexBinary':
        return bool(_HEX.match(text))
    if typ == 'base64Binary':
        return bool(_B64.match(text))
    if typ in ('dateTime', 'dateTimeStamp'):
        m = _DATETIME.match(text)
        if not m:
            return False
        ys, mo, d = m.group(1), int(m.group(3)), int(m.group(4))
        if not _year_ok(ys, version) or not 1 <= mo <= 12 or not 1 <= d <= _days_in_month(int(ys), mo):
            return False
        if not _time_ok(m.group(5), m.group(6), m.group(7)):
            return False
        if typ == 'dateTimeStamp' and not m.group(9):
            return False
        return True
    if typ == 'date':
        m = _DATE.match(text)
        if not m:
            return False
        ys, mo, d = m.group(1), int(m.group(3)), int(m.group(4))
        return _year_ok(ys, version) and 1 <= mo <= 12 and 1 <= d <= _days_in_month(int(ys), mo)
    if typ == 'time':
        m = _TIME.match(text)
        return bool(m) and _time_ok(m.group(1), m.group(2), m.group(3))
    if typ == 'gYearMonth':
        m = _GYM.match(text)
        return bool(m) and _year_ok(m.group(1), version) and 1 <= int(m.group(3)) <= 12
    if typ == 'gYear':
        m = _GY.match(text)
        return bool(m) and _year_ok(m.group(1), version)
    if typ == 'gMonthDay':
        m = _GMD.match(text)
        return bool(m) and 1 <= int(m.group(1)) <= 12 and 1 <= int(m.group(2)) <= _days_in_month(None, int(m.group(1)))
    if typ == 'gDay':
        m = _GD.match(text)
        return bool(m) and 1 <= int(m.group(1)) <= 31
    if typ == 'gMonth':
        m = _GM.match(text)
        return bool(m) and 1 <= int(m.group(1)) <= 12
    if typ in DURATION_TYPES:
        m = _DUR.match(text)
        if not m:
            return False
        comps = [m.group(i) for i in (2, 4, 6, 9, 11, 13)]
        if all(c is None for c in comps):
            return False
        if m.group(7) is not None and all(m.group(i) is None for i in (9, 11, 13)):
            return False      # 'T' without a time component
        if typ == 'dayTimeDuration' and (m.group(2) is not None or m.group(4) is not None):
            return False
        if typ == 'yearMonthDuration' and any(m.group(i) is not None for i in (6, 9, 11, 13)) or \
                typ == 'yearMonthDuration' and m.group(7) is not None:
            return False
        return True
    raise ValueError(typ)


def value(typ, text):
    """Python value of a lexically valid, normalised text (numbers, booleans, binaries, durations)."""
    if typ in INTEGER_RANGES:
        return int(text)
    if typ == 'decimal':
        return Decimal(text)
    if typ in ('float', 'double'):
        t = text.replace('+INF', 'INF')
        if t == 'INF':
            return math.inf
        if t == '-INF':
            return -math.inf
        if t == 'NaN':
            return math.nan
        return float(t)
    if typ == 'boolean':
        return text in ('true', '1')
    if typ == 'hexBinary':
        return bytes.fromhex(text)
    if typ == 'base64Binary':
        return base64.b64decode(text.replace(' ', ''))
    if typ in DURATION_TYPES:
        m = _DUR.match(text)
        sign = -1 if text.startswith('-') else 1
        g = lambda i: Decimal(m.group(i)) if m.group(i) else Decimal(0)
        months = g(2) * 12 + g(4)
        seconds = g(6) * 86400 + g(9) * 3600 + g(11) * 60 + g(13)
        return (sign * months, sign * seconds)
    return text


def float_equal(a, b, single):
    """Library floats for xs:float may be rounded to single precision or kept as the nearest double."""
    if isinstance(a, float) and isinstance(b, float):
        if math.isnan(a) or math.isnan(b):
            return math.isnan(a) and math.isnan(b)
        if a == b:
            return True
        if single:
            import struct
            try:
                return struct.unpack('f', struct.pack('f', a))[0] == struct.unpack('f', struct.pack('f', b))[0]
            except OverflowError:
                return math.isinf(a) or math.isinf(b)
    return a == b
