"""
Frozen copy of the UPA decision procedure of the pinned tree (xmlschema/validators/models.py,
distinguishable_paths and check_model, lines 36-175 at the pinned commit), run on the *live* component objects.

It is not an oracle: the oracle of C15 is the pair of automata constructions in vk/ref/contentmodel.py. This copy
only gives the listed findings of C15 a precise identity. A miss (or a false alarm) of the tree's check_model is
"listed" when the pinned procedure decides the same model the same way, i.e. it is one of the weaknesses of the
pairwise path heuristic that known_findings.json describes; when the tree decides differently from the pinned
procedure *and* wrongly according to the reference, the finding is new and is reported as a violation.
"""
from xmlschema.validators.exceptions import XMLSchemaModelError, XMLSchemaModelDepthError
from xmlschema.validators.wildcards import XsdAnyElement, Xsd11AnyElement
from xmlschema.validators import groups
from xmlschema import _limits


def _(s):
    return s


def distinguishable_paths(path1, path2):
    """
    Checks if two model paths are distinguishable in a deterministic way, without looking forward
    or backtracking. The arguments are lists containing paths from the base group of the model to
    a couple of leaf elements. Returns `True` if there is a deterministic separation between paths,
    `False` if the paths are ambiguous.
    """


    for k, e in enumerate(path1):
        if e not in path2:
            if not k:
                return True
            depth = k - 1
            break
    else:
        depth = 0

    if path1[depth].max_occurs == 0:
        return True

    univocal1 = univocal2 = True
    if path1[depth].model == 'sequence':  # type: ignore[union-attr]
        idx1 = path1[depth].index(path1[depth + 1])
        idx2 = path2[depth].index(path2[depth + 1])
        before1 = any(not e.is_emptiable() for e in path1[depth][:idx1])
        after1 = before2 = any(not e.is_emptiable() for e in path1[depth][idx1 + 1:idx2])
        after2 = any(not e.is_emptiable() for e in path1[depth][idx2 + 1:])
    else:
        before1 = after1 = before2 = after2 = False

    for k in range(depth + 1, len(path1) - 1):
        univocal1 &= path1[k].is_univocal()
        idx = path1[k].index(path1[k + 1])
        if path1[k].model == 'sequence':  # type: ignore[union-attr]
            before1 |= any(not e.is_emptiable() for e in path1[k][:idx])
            after1 |= any(not e.is_emptiable() for e in path1[k][idx + 1:])
        elif any(e.is_emptiable() for e in path1[k] if e is not path1[k][idx]):
            univocal1 = False

    for k in range(depth + 1, len(path2) - 1):
        univocal2 &= path2[k].is_univocal()
        idx = path2[k].index(path2[k + 1])
        if path2[k].model == 'sequence':  # type: ignore[union-attr]
            before2 |= any(not e.is_emptiable() for e in path2[k][:idx])
            after2 |= any(not e.is_emptiable() for e in path2[k][idx + 1:])
        elif any(e.is_emptiable() for e in path2[k] if e is not path2[k][idx]):
            univocal2 = False

    if path1[depth].model != 'sequence':  # type: ignore[union-attr]
        if before1 and before2:
            return True
        elif before1:
            return univocal1 and path1[-1].is_univocal() or after1 or path1[depth].max_occurs == 1
        elif before2:
            return univocal2 and path2[-1].is_univocal() or after2 or path2[depth].max_occurs == 1
        else:
            return False
    elif path1[depth].max_occurs == 1:
        return before2 or (before1 or univocal1) and (path1[-1].is_univocal() or after1)
    else:
        return (before2 or (before1 or univocal1) and (path1[-1].is_univocal() or after1)) and \
               (before1 or (before2 or univocal2) and (path2[-1].is_univocal() or after2))


def check_model(group):
    """
    Checks if the model group is deterministic. Element Declarations Consistent and
    Unique Particle Attribution constraints are checked.

    :param group: the model group to check.
    :raises: an `XMLSchemaModelError` at first violated constraint.
    """
    def safe_iter_path():
        iterators = []
        particles = iter(group)

        while True:
            for item in particles:
                if isinstance(item, groups.XsdGroup):
                    current_path.append(item)
                    iterators.append(particles)
                    particles = iter(item)
                    if len(iterators) > _limits.MAX_MODEL_DEPTH:
                        raise XMLSchemaModelDepthError(group)
                    break
                else:
                    yield item
            else:
                try:
                    current_path.pop()
                    particles = iterators.pop()
                except IndexError:
                    return

    paths = {}
    current_path = [group]

    try:
        any_element = group.parent.open_content.any_element  # type: ignore[union-attr]
    except AttributeError:
        any_element = None

    for e in safe_iter_path():


        for pe, previous_path in paths.values():
            # EDC check
            if not e.is_consistent(pe) or any_element and not any_element.is_consistent(pe):
                msg = _("Element Declarations Consistent violation between {0!r} and {1!r}"
                        ": match the same name but with different types").format(e, pe)
                raise XMLSchemaModelError(group, msg)

            # UPA check
            if pe is e or not pe.is_overlap(e):
                continue
            elif pe.parent is e.parent and pe.parent is not None:
                if pe.parent.model in ('all', 'choice'):
                    if isinstance(pe, Xsd11AnyElement) and not isinstance(e, XsdAnyElement):
                        pe.add_precedence(e, group)
                    elif isinstance(e, Xsd11AnyElement) and not isinstance(pe, XsdAnyElement):
                        e.add_precedence(pe, group)
                    else:
                        msg = _("{0!r} and {1!r} overlap and are in the same {2!r} group")
                        raise XMLSchemaModelError(group, msg.format(pe, e, pe.parent.model))
                elif pe.is_univocal():
                    continue

            if distinguishable_paths(previous_path + [pe], current_path + [e]):
                continue
            elif isinstance(pe, Xsd11AnyElement) and not isinstance(e, XsdAnyElement):
                pe.add_precedence(e, group)
            elif isinstance(e, Xsd11AnyElement) and not isinstance(pe, XsdAnyElement):
                e.add_precedence(pe, group)
            else:
                msg = _("Unique Particle Attribution violation between {0!r} and {1!r}")
                raise XMLSchemaModelError(group, msg.format(pe, e))

        paths[e.name] = e, current_path[:]



def pinned_accepts(group):
    """True / False: would the pinned check_model accept this (built) model group?"""
    saved = []
    for e in group.iter_elements():
        if isinstance(e, Xsd11AnyElement):
            saved.append((e, {g: list(v) for g, v in e.precedences.items()} if hasattr(e, 'precedences') else None))
    try:
        check_model(group)
        return True
    except XMLSchemaModelDepthError:
        return None
    except XMLSchemaModelError:
        return False
    finally:
        for e, prec in saved:
            if prec is not None:
                e.precedences.clear()
                e.precedences.update(prec)
