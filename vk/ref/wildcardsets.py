"""Reference reading of wildcard namespace constraints as sets over a finite universe.

A constraint is a tuple (kind, nsset, notq):
  kind   'any' | 'other' | 'in' | 'not'
  nsset  frozenset of namespace tokens for 'in' / 'not' ('' = absent)
  notq   frozenset of expanded names '{ns}local' (or 'local') excluded by notQName (1.1)

The universe is NAMESPACES x LOCALS. FRESH stands for every namespace no constraint mentions and
'zz' for every local name no notQName mentions, so set operations on the finite universe are
faithful for the infinite one as long as constraints only mention pool names.
"""
from itertools import combinations

TNS = 'urn:vk:t'
N1 = 'urn:vk:n1'
N2 = 'urn:vk:n2'
FRESH = 'urn:vk:fresh'
NAMESPACES = ('', TNS, N1, N2, FRESH)
LOCALS = ('a', 'zz')
UNIVERSE = tuple((ns, ln) for ns in NAMESPACES for ln in LOCALS)

POOL_TOKENS = ('##local', '##targetNamespace', N1, N2)


def expanded(ns, local):
    return '{%s}%s' % (ns, local) if ns else local


def token_ns(tok):
    return {'##local': '', '##targetNamespace': TNS}.get(tok, tok)


def denote(c, tns=TNS):
    """The set of universe names admitted by constraint c (tns: the target namespace of the schema document that
    declares the wildcard; only ##other depends on it, the other kinds carry their namespaces resolved)."""
    kind, nsset, notq = c
    out = set()
    for ns, ln in UNIVERSE:
        if kind == 'any':
            ok = True
        elif kind == 'other':
            ok = ns not in ('', tns)
        elif kind == 'in':
            ok = ns in nsset
        else:
            ok = ns not in nsset
        if ok and expanded(ns, ln) not in notq:
            out.add((ns, ln))
    return frozenset(out)


def render_attrs(c, tns=TNS):
    """XSD attribute text for the constraint (without processContents), in a schema document of target namespace tns."""
    kind, nsset, notq = c
    inv = {'': '##local', tns: '##targetNamespace'}
    toks = ' '.join(inv.get(n, n) for n in sorted(nsset))
    if kind == 'any':
        s = 'namespace="##any"'
    elif kind == 'other':
        s = 'namespace="##other"'
    elif kind == 'in':
        s = f'namespace="{toks}"'
    else:
        s = f'notNamespace="{toks}"'
    if notq:
        s += ' notQName="%s"' % ' '.join(sorted(qname_text(q) for q in notq))
    return s


PREFIXES = {TNS: 't', N1: 'p1', N2: 'p2', FRESH: 'pf'}


def qname_text(exp):
    if exp.startswith('{'):
        ns, ln = exp[1:].split('}')
        return f'{PREFIXES[ns]}:{ln}'
    return exp


def constraints(version):
    """All constraints of the catalogue for an XSD version, in a canonical order."""
    out = [('any', frozenset(), frozenset()), ('other', frozenset(), frozenset())]
    subsets = []
    for k in range(1, len(POOL_TOKENS) + 1):
        for comb in combinations(POOL_TOKENS, k):
            subsets.append(frozenset(token_ns(t) for t in comb))
    for s in subsets:
        out.append(('in', s, frozenset()))
    out.append(('in', frozenset(), frozenset()))     # namespace="": admits nothing
    if version == '1.1':
        for s in subsets:
            out.append(('not', s, frozenset()))
        # notQName variants: one excluded name, only where its namespace is admitted
        base = list(out)
        for c in base:
            for q in (expanded(N1, 'a'), expanded(TNS, 'a'), expanded('', 'a')):
                ns = q[1:].split('}')[0] if q.startswith('{') else ''
                if (ns, 'a') in denote(c):
                    out.append((c[0], c[1], frozenset([q])))
    return out


def expressible_10(s):
    """Can the set s be written as one XSD 1.0 wildcard (##any, ##other or a finite list)?"""
    nss = frozenset(ns for ns, _ in s)
    if any(((ns, 'a') in s) != ((ns, 'zz') in s) for ns in NAMESPACES):
        return False
    return FRESH not in nss or nss == frozenset(NAMESPACES) or nss == frozenset((N1, N2, FRESH))
