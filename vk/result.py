"""Shard result container: counters, distinct-case hashes, samples, violations.

Everything in it is JSON-serialisable through to_json()/from_json() because shards run in
separate processes (subprocess.run per shard, never multiprocessing.Pool).
"""
from collections import Counter

MAX_SAMPLES = 8
MAX_VIOLATIONS_PER_MECH = 6
MAX_INCONCLUSIVE = 12


class Result:
    def __init__(self):
        self.counters = Counter()
        self.evaluations = 0
        self.nontrivial = set()      # h8 hashes of distinct non-trivial cases
        self.sets = {}               # name -> set of str (merged by union; e.g. lines hit)
        self.samples = []
        self.violations = []         # dicts: mechanism, case, detail
        self._viol_per_mech = Counter()
        self.viol_counts = Counter() # mechanism -> total count (uncapped)
        self.inconclusive = []       # dicts: reason, case
        self.inconclusive_count = 0
        self.notes = []

    # -- recording -------------------------------------------------------------------
    def count(self, key, n=1):
        self.counters[key] += n

    def case(self, nontrivial_hash=None, n=1):
        self.evaluations += n
        if nontrivial_hash is not None:
            self.nontrivial.add(nontrivial_hash)

    def sample(self, obj):
        if len(self.samples) < MAX_SAMPLES:
            self.samples.append(obj)

    def add_to_set(self, name, value):
        self.sets.setdefault(name, set()).add(value)

    def violation(self, mechanism, case, detail=''):
        self.viol_counts[mechanism] += 1
        if self._viol_per_mech[mechanism] < MAX_VIOLATIONS_PER_MECH:
            self._viol_per_mech[mechanism] += 1
            self.violations.append({'mechanism': mechanism, 'case': case, 'detail': detail})

    def inconclusive_case(self, reason, case=None):
        self.inconclusive_count += 1
        self.counters['inconclusive:' + reason] += 1
        if len(self.inconclusive) < MAX_INCONCLUSIVE:
            self.inconclusive.append({'reason': reason, 'case': case})

    # -- transport -------------------------------------------------------------------
    def to_json(self):
        return {
            'counters': dict(self.counters),
            'evaluations': self.evaluations,
            'nontrivial': sorted(self.nontrivial),
            'sets': {k: sorted(v) for k, v in self.sets.items()},
            'samples': self.samples,
            'violations': self.violations,
            'viol_counts': dict(self.viol_counts),
            'inconclusive': self.inconclusive,
            'inconclusive_count': self.inconclusive_count,
            'notes': self.notes,
        }

    def merge_json(self, d):
        self.counters.update(d['counters'])
        self.evaluations += d['evaluations']
        self.nontrivial.update(d['nontrivial'])
        for k, v in d['sets'].items():
            self.sets.setdefault(k, set()).update(v)
        for s in d['samples']:
            self.sample(s)
        for v in d['violations']:
            if self._viol_per_mech[v['mechanism']] < MAX_VIOLATIONS_PER_MECH:
                self._viol_per_mech[v['mechanism']] += 1
                self.violations.append(v)
        self.viol_counts.update(d['viol_counts'])
        for i in d['inconclusive']:
            if len(self.inconclusive) < MAX_INCONCLUSIVE:
                self.inconclusive.append(i)
        self.inconclusive_count += d['inconclusive_count']
        self.notes.extend(d.get('notes', []))
