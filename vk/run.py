"""Parent runner: plan shards, run one subprocess per shard, merge, classify, write evidence.

usage: python -m vk.run <ID> [--tier quick|thorough] [--replay PATH] [--jobs N]
exit:  0 held on everything explored (KNOWN-FINDING lines may be printed)
       1 VIOLATION property=<id> replay=<path>
       2 INCONCLUSIVE (a deciding monitor saw nothing / shards lost) - believed by nobody
"""
import argparse
import glob
import importlib
import json
import os
import shutil
import subprocess
import sys
import tempfile
import time
from concurrent.futures import ThreadPoolExecutor

from vk import env
from vk.result import Result

TIERS = ('quick', 'thorough')


def find_check(pid):
    pid = pid.upper()
    hits = glob.glob(os.path.join(env.VERIF_DIR, 'checks', pid.lower() + '_*.py'))
    if len(hits) != 1:
        raise SystemExit(f'no unique check module for {pid}: {hits}')
    return 'checks.' + os.path.basename(hits[0])[:-3]


def load_known(pid):
    path = os.path.join(env.VERIF_DIR, 'known_findings.json')
    if not os.path.exists(path):
        return []
    with open(path) as f:
        data = json.load(f)
    return [e for e in data.get('findings', []) if e.get('property') == pid]


def ensure_deps(packages):
    """Install pure-python helper packages from the offline wheelhouse into .deps (git-ignored)."""
    missing = []
    for p in packages:
        if not glob.glob(os.path.join(env.DEPS_DIR, p + '*')):
            missing.append(p)
    if missing:
        subprocess.run([env.PYTHON, '-m', 'pip', 'install', '-q', '--no-index', '--find-links',
                        '/opt/veriftools/wheels', '--target', env.DEPS_DIR] + missing,
                       check=False, stdout=subprocess.DEVNULL, stderr=subprocess.DEVNULL)


def child_env(scratch):
    e = dict(os.environ)
    e['PYTHONHASHSEED'] = '0'
    e['PYTHONPYCACHEPREFIX'] = os.path.join(scratch, 'pyc')
    e['PYTHONPATH'] = env.VERIF_DIR
    e['VERIF_REPO'] = env.VERIF_REPO
    e[env.GUARD] = '1'
    e['TMPDIR'] = scratch
    return e


def run_shards(modname, specs, timeout, jobs, scratch):
    cenv = child_env(scratch)

    def one(i):
        spec_path = os.path.join(scratch, f'spec{i}.json')
        out_path = os.path.join(scratch, f'out{i}.json')
        with open(spec_path, 'w') as f:
            json.dump(specs[i], f)
        try:
            p = subprocess.run([env.PYTHON, '-m', 'vk.worker', modname, spec_path, out_path],
                               cwd=env.VERIF_DIR, env=cenv, timeout=timeout,
                               stdout=subprocess.PIPE, stderr=subprocess.STDOUT)
            tail = p.stdout.decode('utf-8', 'replace')[-2000:]
            rc = p.returncode
        except subprocess.TimeoutExpired:
            return i, None, 'timeout'
        if not os.path.exists(out_path):
            return i, None, f'no output rc={rc}: {tail}'
        with open(out_path) as f:
            return i, json.load(f), tail

    with ThreadPoolExecutor(max_workers=jobs) as ex:
        yield from ex.map(one, range(len(specs)))


def main(argv=None):
    ap = argparse.ArgumentParser()
    ap.add_argument('pid')
    ap.add_argument('--tier', default=os.environ.get('VERIF_TIER') or 'quick', choices=TIERS)
    ap.add_argument('--replay')
    ap.add_argument('--jobs', type=int, default=int(os.environ.get('VERIF_JOBS', '0')) or
                    min(16, os.cpu_count() or 4))
    args = ap.parse_args(argv)
    pid = args.pid.upper()
    modname = find_check(pid)
    seed = env.seed_value()

    if args.replay:
        env.activate_repo()
        mod = importlib.import_module(modname)
        with open(args.replay) as f:
            rec = json.load(f)
        still = mod.replay(rec['case'])
        print(('REPRODUCED' if still else 'NOT-REPRODUCED') + f' property={pid} mechanism={rec.get("mechanism")}')
        return 1 if still else 0

    t0 = time.time()
    mod = importlib.import_module(modname)  # plan() must not need the repo
    if getattr(mod, 'DEPS', None):
        ensure_deps(mod.DEPS)
    specs = mod.plan(args.tier, seed)
    for i, s in enumerate(specs):
        s.setdefault('shard', i)
        s.setdefault('tier', args.tier)
        s.setdefault('seed', seed)
    timeout = getattr(mod, 'SHARD_TIMEOUT', {}).get(args.tier, 900 if args.tier == 'quick' else 3600)
    scratch = tempfile.mkdtemp(prefix='vk-')
    merged = Result()
    lost = []
    shard_walls = []
    try:
        for i, out, tail in run_shards(modname, specs, timeout, args.jobs, scratch):
            if out is None:
                lost.append(f'shard {i}: {tail}')
                continue
            if out.get('status') != 'ok':
                lost.append(f'shard {i} crashed: ' + ' | '.join(out.get('notes', []))[-1500:])
            merged.merge_json(out)
            shard_walls.append(round(out.get('wall_s', 0), 1))
    finally:
        shutil.rmtree(scratch, ignore_errors=True)

    known = {e['mechanism']: e for e in load_known(pid) if e.get('status') == 'known'}
    reasons = list(lost)
    fin = mod.finalize(merged, args.tier) if hasattr(mod, 'finalize') else {}
    reasons += fin.get('inconclusive', [])
    if not merged.samples:
        reasons.append('no sample case was recorded by any shard')
    extra_cov = fin.get('coverage', {})

    # anchored line coverage
    anchored = {}
    anchored_missed = {}
    anchors = getattr(mod, 'ANCHORS', None)
    if anchors:
        from vk.mon import probes
        totals = probes.anchored_totals(env.VERIF_REPO, anchors)
        hit = merged.sets.get('lines', set())
        for rel, lines in totals.items():
            n = sum(1 for ln in lines if f'{rel}:{ln}' in hit)
            anchored[rel] = f'{n}/{len(lines)}'
            # statement lines of the anchored regions that no shard executed, as compact ranges (tools/uncovered.py)
            miss = [ln for ln in lines if f'{rel}:{ln}' not in hit]
            spans, start, prev = [], None, None
            for ln in miss:
                if start is None:
                    start = prev = ln
                elif ln <= prev + 2:
                    prev = ln
                else:
                    spans.append(f'{start}-{prev}' if prev != start else str(start))
                    start = prev = ln
            if start is not None:
                spans.append(f'{start}-{prev}' if prev != start else str(start))
            anchored_missed[rel] = ','.join(spans)

    # classify violations
    new = [v for v in merged.violations if v['mechanism'] not in known]
    kf_counts = {m: merged.viol_counts.get(m, 0) for m in known}
    replay_dir = os.path.join(os.environ.get('VERIF_REPLAY_DIR') or os.path.join(env.VERIF_DIR, 'replays'), pid)
    lines = []
    n_new = sum(c for m, c in merged.viol_counts.items() if m not in known)
    written = {}
    for v in merged.violations:
        if v['mechanism'] in known and v['mechanism'] in written:
            continue
        os.makedirs(replay_dir, exist_ok=True)
        path = os.path.join(replay_dir, env.h8(json.dumps(v, sort_keys=True, default=str)) + '.json')
        rec = dict(v, property=pid, seed=seed, tier=args.tier)
        with open(path, 'w') as f:
            json.dump(rec, f, indent=1, default=str)
        written.setdefault(v['mechanism'], path)
        if v['mechanism'] not in known:
            lines.append(f'VIOLATION property={pid} replay={path} mechanism={v["mechanism"]} {v.get("detail", "")[:300]}')
    for m, e in known.items():
        print(f'KNOWN-FINDING: property={pid} {m}: {e.get("what", "")} [observed={kf_counts[m]}'
              + (f' witness={written[m]}' if m in written else '') + ']')
    for ln in lines:
        print(ln)

    wall = time.time() - t0
    cov = {
        'evaluations': merged.evaluations,
        'distinct_nontrivial': len(merged.nontrivial),
        'rule': getattr(mod, 'RULE', ''),
        'samples': merged.samples,
        'counters': dict(sorted(merged.counters.items())),
        'anchored_lines_hit': anchored,
        'anchored_lines_not_executed': anchored_missed,
        'known_findings_observed': kf_counts,
        'new_violation_mechanisms': dict((m, c) for m, c in merged.viol_counts.items() if m not in known),
        'inconclusive_cases': merged.inconclusive_count,
        'inconclusive_samples': merged.inconclusive[:6],
        'run_inconclusive_reasons': reasons,
        'shards': len(specs),
        'shard_wall_s': shard_walls,
    }
    for k, v in merged.sets.items():
        if k != 'lines':
            cov['distinct_' + k] = len(v)
    cov.update(extra_cov)
    if getattr(mod, 'EXHAUSTIVE', {}).get(args.tier):
        cov['exhaustive'] = True
    evidence = {
        'property_id': pid, 'tier': args.tier, 'seed': seed,
        'level': getattr(mod, 'LEVEL', 'exploration'),
        'coverage': cov,
        'assumptions': getattr(mod, 'ASSUMPTIONS', []),
        'wall_s': round(wall, 2),
        'violations': n_new,
    }
    evdir = os.environ.get('VERIF_EVIDENCE_DIR') or os.path.join(env.VERIF_DIR, 'evidence')
    os.makedirs(evdir, exist_ok=True)
    evpath = os.path.join(evdir, pid + '.json')
    with open(evpath + '.tmp', 'w') as f:
        json.dump(evidence, f, indent=1, default=str)
    os.replace(evpath + '.tmp', evpath)

    print(f'{pid} tier={args.tier} seed={seed} evaluations={merged.evaluations} '
          f'distinct_nontrivial={len(merged.nontrivial)} new_violations={n_new} '
          f'known={sum(kf_counts.values())} inconclusive_cases={merged.inconclusive_count} wall={wall:.1f}s')
    if n_new:
        return 1
    if reasons:
        for r in reasons:
            print(f'INCONCLUSIVE property={pid} {r[:600]}')
        return 2
    return 0


if __name__ == '__main__':
    sys.exit(main())
