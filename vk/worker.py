"""One shard in one process: `python -m vk.worker <check module> <spec.json> <out.json>`."""
import importlib
import json
import os
import sys
import time
import traceback


def main(argv):
    modname, spec_path, out_path = argv
    from vk import env
    env.activate_repo()
    from vk.result import Result
    from vk.mon import probes
    with open(spec_path) as f:
        spec = json.load(f)
    mod = importlib.import_module(modname)
    res = Result()
    cov = None
    anchors = getattr(mod, 'ANCHORS', None)
    if anchors and not spec.get('no_cov'):
        cov = probes.LineCoverage(env.VERIF_REPO, anchors)
        cov.start()
    t0 = time.time()
    status = 'ok'
    try:
        mod.run_shard(spec, res)
    except BaseException as e:  # harness failure: the shard says nothing
        status = 'crashed'
        res.notes.append('shard crashed: ' + ''.join(traceback.format_exception(e))[-3000:])
    finally:
        if cov is not None:
            cov.stop()
            res.sets.setdefault('lines', set()).update(cov.report())
    out = res.to_json()
    out['status'] = status
    out['wall_s'] = time.time() - t0
    tmp = out_path + '.tmp'
    with open(tmp, 'w') as f:
        json.dump(out, f)
    os.replace(tmp, out_path)
    return 0


if __name__ == '__main__':
    sys.exit(main(sys.argv[1:]))
